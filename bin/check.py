#!/usr/bin/env python3
"""Driver for the solver-based checks.

  check.py <PROPERTY-ID> [--tier quick|thorough]      run a property's check
  check.py --replay <replay.json>                      replay one solver model natively

For a property the driver (1) expands the harness list of checks/<ID>.json into jobs (one
per harness x parameter case), (2) runs the symbolic executor gosx on them in parallel --
gosx rebuilds the SSA of /repo's current working tree every time --, (3) replays every
solver counterexample and a sample of passing-path models against the real build
(go test, real libraries, no stubs), (4) matches reproduced counterexamples against
known_findings.json, (5) writes evidence/<ID>.json.

exit 0: property held on everything explored (KNOWN-FINDING lines allowed)
exit 1: VIOLATION property=<id> replay=<path>
exit 2: inconclusive (solver unknown, unwinding failure, encoding drift, spurious model)
"""
import json, os, subprocess, sys, time, hashlib, itertools, tempfile, shutil, random
from concurrent.futures import ThreadPoolExecutor

ROOT = os.path.dirname(os.path.dirname(os.path.abspath(__file__)))
REPO = os.environ.get("VERIF_REPO", "/repo")
HARNESS = os.path.join(ROOT, "harness")
GOSX = os.path.join(ROOT, "bin", "gosx")
MOD = "github.com/blinklabs-io/gouroboros"
REPLAY_TRIES = 6


def goenv():
    env = dict(os.environ)
    env["PATH"] = "/opt/veriftools/go1.26.8/bin:" + env.get("PATH", "")
    env.update(GOTOOLCHAIN="local", GOFLAGS="-mod=mod", GOPROXY="off", GOSUMDB="off")
    env.setdefault("GOCACHE", "/root/.cache/go-build")
    return env


def overlay_map(spec, pkg=None):
    """Overlay for the jobs of one harness package: the spec's shims plus that package's
    extra shims (pkg_shims), which hold accessors for functions a refactor may remove."""
    ov = {}
    for pkgdir, fname in spec.get("shims", {}).items():
        ov[os.path.join(REPO, pkgdir, "zz_verif_shim.go")] = os.path.join(ROOT, "shims", fname)
    for pkgdir, fname in spec.get("pkg_shims", {}).get(pkg or "", {}).items():
        ov[os.path.join(REPO, pkgdir, "zz_verif_shim_extra.go")] = os.path.join(ROOT, "shims", fname)
    return ov


SKIPPED = []


def requirements_met(h):
    """A harness may name source text it needs (an unexported function it calls through a
    shim). If /repo no longer has it the harness cannot be built: it is skipped and reported,
    the other harnesses of the property still run."""
    for r in h.get("requires", []):
        try:
            txt = open(os.path.join(REPO, r["file"])).read()
        except OSError:
            txt = ""
        if r["text"] not in txt:
            SKIPPED.append("%s: skipped, %s no longer contains '%s'" % (h["func"], r["file"], r["text"]))
            return False
    return True


def expand_cases(h, tier):
    """A harness entry may carry params (dict name -> list of ints) per tier; every
    combination is one case, decided separately by the solver."""
    explicit = h.get("cases_" + tier, h.get("cases"))
    if explicit:
        return [dict(c) for c in explicit]
    params = h.get("params_" + tier, h.get("params", {}))
    if not params:
        return [{}]
    names = sorted(params)
    lists = []
    for n in names:
        v = params[n]
        if isinstance(v, dict):  # {"range":[lo,hi]}
            lo, hi = v["range"]
            v = list(range(lo, hi + 1))
        lists.append(v)
    return [dict(zip(names, combo)) for combo in itertools.product(*lists)]


def qual(name):
    return name.replace("$MOD", MOD)


def build_jobs(spec, tier, known, solver):
    entries = []
    for h in spec["harnesses"]:
        tiers = h.get("tiers", ["quick", "thorough"])
        if tier not in tiers:
            continue
        if not requirements_met(h):
            continue
        for case in expand_cases(h, tier):
            if os.environ.get("VERIF_CASE") and json.loads(os.environ["VERIF_CASE"]) != case:
                continue
            e = {
                "func": h["func"],
                "ints": h.get("ints", "bv"),
                "stubs": {qual(k): qual(v) for k, v in h.get("stubs", {}).items()},
                "inits": [qual(x) for x in h.get("inits", spec.get("inits", []))],
                "maxloop": h.get("maxloop_" + tier, h.get("maxloop", 0)),
                "must_encode": [qual(x) for x in h.get("must_encode", [])],
                "must_reach": h.get("must_reach", []),
                "params": case,
                "timeout_ms": h.get("timeout_ms", 10000),
                "max_paths": h.get("max_paths_" + tier, h.get("max_paths", 0)),
                "samples": h.get("samples", 2),
                "makeslice_max": h.get("makeslice_max", 0),
                "inject_failures": h.get("inject_failures", False),
                "natural_models": h.get("natural_models", False),
                "preempt_sends": h.get("preempt_sends", False),
                "_fp_confirm": h.get("fp_confirm", False),
                "_fp_seconds": h.get("fp_seconds", 300),
                "max_seconds": h.get("max_seconds_" + tier, h.get("max_seconds", 600 if tier == "quick" else 7200)),
                "known": [k for k in known if k.get("harness") in (None, h["func"])],
                "_pkg": h.get("pkg", spec["pkg"]),
                "_weight": h.get("weight", 1),
            }
            entries.append(e)
    return entries


# small standard-library packages always loaded from source when selective loading is on, so
# that a change to /repo that starts calling one of their helpers stays executable
COMMON_SRC = ["encoding/binary", "math/bits", "slices", "maps", "bytes", "errors", "unicode/utf8", "strconv"]


def with_common(pk):
    if not pk:
        return pk
    return pk + [c for c in COMMON_SRC if c not in pk]


def run_gosx(shard_id, pkg, entries, ov, solver, seed, workdir, src_pkgs=None):
    job = {"dir": HARNESS, "pkg": pkg, "overlay": ov, "solver": solver, "seed": seed,
           "src_pkgs": with_common([qual(x) for x in (src_pkgs or [])]),
           "harnesses": [{k: v for k, v in e.items() if not k.startswith("_")} for e in entries]}
    jp = os.path.join(workdir, "job%d.json" % shard_id)
    rp = os.path.join(workdir, "res%d.json" % shard_id)
    with open(jp, "w") as f:
        json.dump(job, f)
    t0 = time.time()
    p = subprocess.run([GOSX, jp, rp], env=goenv(), stdout=subprocess.PIPE, stderr=subprocess.STDOUT, text=True)
    out = p.stdout
    try:
        res = json.load(open(rp))
    except Exception:
        res = {"error": "gosx produced no result: " + out[-2000:], "harnesses": []}
    res["_wall"] = time.time() - t0
    res["_stdout"] = out[-4000:]
    res["_rc"] = p.returncode
    return res


def native_batch(pkg, items, ov, workdir, timeout=900):
    """Run harness functions natively (real build, shims only add accessors) on the given
    models. items: list of {harness, model, params}. Returns list of reports (or None)."""
    if not items:
        return []
    bp = os.path.join(workdir, "batch_%s.json" % hashlib.md5((pkg + str(len(items)) + str(time.time())).encode()).hexdigest()[:8])
    with open(bp, "w") as f:
        json.dump(items, f)
    ovp = os.path.join(workdir, "overlay.json")
    with open(ovp, "w") as f:
        json.dump({"Replace": ov}, f)
    env = goenv()
    env["VERIF_BATCH"] = bp
    cmd = ["go", "test", "-v", "-vet=off", "-count=1", "-run", "^TestReplayBatch$", "-timeout", "%ds" % timeout,
           "-overlay", ovp, pkg]
    p = subprocess.run(cmd, cwd=HARNESS, env=env, stdout=subprocess.PIPE, stderr=subprocess.STDOUT, text=True)
    reports = []
    for line in p.stdout.splitlines():
        if line.startswith("NATIVE-REPORT "):
            reports.append(json.loads(line[len("NATIVE-REPORT "):]))
    if len(reports) != len(items):
        sys.stderr.write("native batch: expected %d reports, got %d\n%s\n" % (len(items), len(reports), p.stdout[-3000:]))
        while len(reports) < len(items):
            reports.append({"error": "no report", "stdout": p.stdout[-1500:]})
    return reports


def reproduced(finding, report):
    """Does the native run show the same failure the solver predicted?"""
    if report is None or "error" in report:
        return False
    if finding["kind"] == "assert":
        # the same obligation fails natively -- or another obligation of the same harness
        # does on the same inputs (natively some facts are computed rather than assumed)
        return bool(report.get("failed")) or "panic" in report
    if "allocation size" in finding.get("msg", ""):
        # allocation obligations do not panic natively: the harness measures memory use
        return bool(report.get("failed")) or "panic" in report
    # implicit obligations (index, nil, type assertion, division, explicit panic): any native panic
    return "panic" in report


def load_known(prop):
    p = os.path.join(ROOT, "known_findings.json")
    if not os.path.exists(p):
        return []
    d = json.load(open(p))
    return [k for k in d.get("findings", []) if k["property"] == prop]


def main():
    args = sys.argv[1:]
    if args and args[0] == "--replay":
        return replay_cmd(args[1])
    prop = args[0]
    tier = os.environ.get("VERIF_TIER", "quick")
    if "--tier" in args:
        tier = args[args.index("--tier") + 1]
    seed = int(os.environ.get("VERIF_SEED", "0") or 0)
    spec = json.load(open(os.path.join(ROOT, "checks", prop + ".json")))
    t0 = time.time()
    known = load_known(prop)
    solver = ["z3", "-in"]
    entries = build_jobs(spec, tier, known, solver)
    rnd = random.Random(seed)
    rnd.shuffle(entries)
    ov = overlay_map(spec)
    workdir = tempfile.mkdtemp(prefix="verif_%s_" % prop)
    try:
        rc = run_check(prop, tier, seed, spec, entries, ov, solver, workdir, t0, known)
    finally:
        if os.environ.get("VERIF_KEEP"):
            print("kept workdir", workdir)
        else:
            shutil.rmtree(workdir, ignore_errors=True)
    return rc


def run_check(prop, tier, seed, spec, entries, ov, solver, workdir, t0, known):
    # shard by package, then round-robin by weight into at most `par` processes
    par = int(os.environ.get("VERIF_PAR", "14"))
    bypkg = {}
    for e in entries:
        bypkg.setdefault(e["_pkg"], []).append(e)
    shards = []
    shard_min = spec.get("shard_min", 6)
    nshards_total = max(1, min(par, (len(entries) + shard_min - 1) // shard_min))
    for pkg, es in bypkg.items():
        n = max(1, min(len(es), round(nshards_total * len(es) / len(entries))))
        es = sorted(es, key=lambda e: -e["_weight"])
        buckets = [[] for _ in range(n)]
        for i, e in enumerate(es):
            buckets[i % n].append(e)
        for b in buckets:
            if b:
                shards.append((pkg, b))
    results = []
    with ThreadPoolExecutor(max_workers=par) as ex:
        futs = [ex.submit(run_gosx, i, pkg, b, overlay_map(spec, pkg), solver, seed, workdir, spec.get("pkg_src_pkgs", {}).get(pkg, spec.get("src_pkgs"))) for i, (pkg, b) in enumerate(shards)]
        for f in futs:
            results.append(f.result())
    hres = []
    load_s = 0.0
    errors = []
    for (pkg, b), r in zip(shards, results):
        load_s = max(load_s, r.get("load_s", 0))
        if r.get("error"):
            errors.append(r["error"])
        got = r.get("harnesses") or []
        if len(got) != len(b) and not r.get("error"):
            errors.append("gosx stopped early (rc=%s): %s" % (r.get("_rc"), r.get("_stdout", "")[-1500:]))
        for h in got:
            h["_pkg"] = pkg
            hres.append(h)
    inconclusive = list(errors)
    for note in SKIPPED:
        print("note: " + note)
    for h in hres:
        if h["status"] == "inconclusive":
            inconclusive.append("%s%s: %s" % (h["func"], h.get("params") or "", h["inconclusive"]))

    # ---- refinement pass for harnesses that abstract floating point ----
    # The first pass treats every float64 result as arbitrary (sound for "holds"). Where that
    # pass produced counterexamples and the harness asks for it (fp_confirm), the same case is
    # re-run with floats encoded in the solver's IEEE-754 theory: counterexamples of that pass
    # are real float behaviours (replayed natively like any other); if it explores the case
    # completely without a counterexample, the abstract ones are refuted and dropped; if it
    # runs out of budget the abstract ones stay (and end as INCONCLUSIVE unless they replay).
    fp_jobs = []
    bykey = {(e["func"], json.dumps(e["params"], sort_keys=True)): e for e in entries}
    for h in hres:
        e = bykey.get((h["func"], json.dumps(h.get("params") or {}, sort_keys=True)))
        if e and e.get("_fp_confirm") and h.get("findings") and h["status"] != "inconclusive":
            e2 = dict(e)
            e2.update({"fp_precise": True, "timeout_ms": 60000, "max_seconds": e["_fp_seconds"], "natural_models": False})
            fp_jobs.append((h, e2))
    if fp_jobs:
        with ThreadPoolExecutor(max_workers=par) as ex:
            futs = [ex.submit(run_gosx, 1000 + i, e2["_pkg"], [e2], overlay_map(spec, e2["_pkg"]), solver, seed, workdir, spec.get("pkg_src_pkgs", {}).get(e2["_pkg"], spec.get("src_pkgs"))) for i, (h, e2) in enumerate(fp_jobs)]
            for (h, e2), f in zip(fp_jobs, futs):
                r = f.result()
                got = (r.get("harnesses") or [None])[0]
                if got is None:
                    continue
                h["fp_pass"] = {"status": got["status"], "paths": got.get("paths"), "queries": got.get("queries"), "solver_s": got.get("solver_s"), "inconclusive": got.get("inconclusive")}
                if got["status"] == "inconclusive":
                    continue
                if got.get("findings"):
                    for fnd in got["findings"]:
                        fnd["msg"] = fnd["msg"] + " [IEEE-754 pass]"
                    h["findings"] = got["findings"] + h["findings"]
                else:
                    h["refuted"] = [f["msg"] for f in h["findings"]]
                    h["findings"] = []
                    if h["status"] == "findings":
                        h["status"] = "ok"

    # ---- native replays: counterexamples, known hits, passing samples ----
    replay_dir = os.path.join(ROOT, "replays", prop)
    os.makedirs(replay_dir, exist_ok=True)
    for fn in os.listdir(replay_dir):
        os.remove(os.path.join(replay_dir, fn))
    items_by_pkg = {}
    search_n = {hh["func"]: hh.get("native_search", 0) for hh in spec["harnesses"]}
    refs = []  # (pkg, index, kind, harnessresult, finding|sample)
    nsamp = 0
    max_samples = spec.get("native_samples_" + tier, spec.get("native_samples", 12))
    for h in hres:
        for f in (h.get("findings") or []) + (h.get("known_hits") or []):
            lst = items_by_pkg.setdefault(h["_pkg"], [])
            refs.append((h["_pkg"], len(lst), "finding", h, f))
            # a counterexample is replayed several times: where the real run depends on Go's
            # random choice among ready select cases one replay may take the other branch
            for _ in range(REPLAY_TRIES):
                lst.append({"harness": h["func"], "model": f["model"], "params": h.get("params") or {}})
            # harnesses over an abstraction (floating point) may ask for a native search for a
            # concrete witness when the solver's own inputs do not reproduce
            lst.append({"harness": h["func"], "model": {}, "params": h.get("params") or {}, "search": search_n.get(h["func"], 0)} if search_n.get(h["func"]) else
                       {"harness": h["func"], "model": f["model"], "params": h.get("params") or {}})
    order = list(range(len(hres)))
    random.Random(seed).shuffle(order)
    for i in order:
        h = hres[i]
        if spec.get("no_native_samples"):
            break
        for s in (h.get("samples") or [])[:1]:
            if nsamp >= max_samples:
                break
            lst = items_by_pkg.setdefault(h["_pkg"], [])
            refs.append((h["_pkg"], len(lst), "sample", h, s))
            lst.append({"harness": h["func"], "model": s["model"], "params": h.get("params") or {}})
            nsamp += 1
    reports = {}
    t_sym = time.time() - t0
    for pkg, items in items_by_pkg.items():
        reports[pkg] = native_batch(pkg, items, overlay_map(spec, pkg), workdir)
    t_nat = time.time() - t0 - t_sym
    if os.environ.get("VERIF_VERBOSE"):
        print("timing: symbolic %.1fs (max load %.1fs, shards %d), native %.1fs" % (t_sym, load_s, len(shards), t_nat))
        for (pkg, b), r in zip(shards, results):
            print("  shard %s cases=%d wall=%.1fs load=%.1fs" % (pkg, len(b), r.get("_wall", 0), r.get("load_s", 0)))
    violations, known_lines, spurious, validated, mismatches = [], [], [], 0, []
    executor_missed = []
    nrep = 0
    for pkg, idx, kind, h, x in refs:
        rep = reports[pkg][idx]
        if kind == "finding":
            for alt in reports[pkg][idx:idx + REPLAY_TRIES + 1]:
                if reproduced(x, alt):
                    rep = alt
                    if alt.get("model"):
                        # witness found by the native search: these are the inputs to replay
                        x = dict(x, model=alt["model"], msg=x["msg"] + " [witness found by native search over the harness inputs]")
                    break
            nrep += 1
            rp = os.path.join(replay_dir, "%s-%d.json" % (h["func"], nrep))
            with open(rp, "w") as f:
                json.dump({"property": prop, "pkg": pkg, "harness": h["func"], "params": h.get("params") or {},
                           "model": x["model"], "kind": x["kind"], "msg": x["msg"], "region": x.get("region", ""),
                           "native_report": rep}, f, indent=1)
            if reproduced(x, rep):
                if x.get("region"):
                    known_lines.append((x, rp))
                else:
                    violations.append((h, x, rp))
            else:
                spurious.append((h, x, rp, rep))
        else:
            bad = None
            if rep is None or "error" in rep:
                bad = "no native report"
            elif rep.get("failed") or rep.get("panic"):
                # the real build fails the harness's own obligation on this input: that is a
                # violation in its own right (the executor's disagreement is reported as well)
                nrep += 1
                rp = os.path.join(replay_dir, "%s-%d.json" % (h["func"], nrep))
                msg = (rep.get("failed") or ["panic: " + str(rep.get("panic"))])[0]
                fx = {"kind": "assert" if rep.get("failed") else "panic", "msg": msg, "model": x["model"]}
                with open(rp, "w") as f:
                    json.dump({"property": prop, "pkg": pkg, "harness": h["func"], "params": h.get("params") or {},
                               "model": x["model"], "kind": fx["kind"], "msg": msg, "region": "",
                               "native_report": rep, "note": "found by native replay of a path model the executor passed"}, f, indent=1)
                violations.append((h, fx, rp))
                executor_missed.append("%s%s: native run fails '%s' on a path the executor passed" % (h["func"], h.get("params") or "", msg))
                continue
            elif rep.get("assume_failed") and x.get("end") == "return":
                bad = "native run rejected an assumption the executor accepted"
            else:
                for k, v in (x.get("obs") or {}).items():
                    nv = rep.get("obs", {}).get(k)
                    if nv is not None and not same_value(nv, v):
                        bad = "observation %s: executor %s, native %s" % (k, v, nv)
            if bad:
                mismatches.append("%s%s: %s model=%s" % (h["func"], h.get("params") or "", bad, json.dumps(x["model"])[:400]))
            else:
                validated += 1
    for m in mismatches:
        inconclusive.append("translator validation: " + m)
    for h, x, rp, rep in spurious:
        inconclusive.append("spurious counterexample (not reproduced natively): %s / %s replay=%s" % (h["func"], x["msg"], rp))

    # known findings that no longer reproduce are reported (not an error)
    gone = {}
    hit = set()
    for h in hres:
        for k in h.get("known_gone", []) or []:
            gone[(k["region"], k["obligation"])] = k
        for x in h.get("known_hits", []) or []:
            hit.add(x["region"])
    seen_known = set()
    for x, rp in known_lines:
        key = (x["region"], x["msg"])
        if x["region"] in seen_known:
            continue
        seen_known.add(x["region"])
        print("KNOWN-FINDING: property=%s %s [region %s; replay=%s]" % (prop, x.get("what") or x["msg"], x["region"], rp))
    for (region, obl), k in gone.items():
        if region not in hit:
            print("note: known finding '%s' (%s) no longer reproduces" % (region, k.get("what", "")))

    # ---- evidence ----
    wall = time.time() - t0
    enc = {}
    for h in hres:
        for fn, n in (h.get("encoded") or {}).items():
            enc[fn] = max(enc.get(fn, 0), n)
    samples = []
    for h in hres:
        for s in (h.get("samples") or [])[:1]:
            if len(samples) < 6:
                samples.append({"harness": h["func"], "params": h.get("params") or {}, "path_end": s.get("end"),
                                "inputs": trim_model(s["model"]), "observed": s.get("obs")})
    if not samples:
        samples = [{"harness": h["func"], "params": h.get("params") or {}, "note": "all inputs concrete on this case"} for h in hres[:3]]
    total_paths = sum(h["paths"] for h in hres)
    oblig = sum(h.get("obligations", 0) for h in hres)
    disch = sum(h.get("discharged", 0) for h in hres)
    msgs = sorted({m for h in hres for m in (h.get("obligation_msgs") or [])})
    ev = {
        "property_id": prop,
        "tier": tier,
        "seed": seed,
        "level": "model_checking",
        "coverage": {
            "states": max(1, total_paths),
            "transitions": max(1, sum(h["branches"] for h in hres)),
            "traces_validated_against_impl": validated,
            "samples": samples,
            "technique": "bounded symbolic execution of /repo's go/ssa into SMT-LIB2; every obligation decided by z3 (unsat = holds for all inputs within the bounds)",
            "harness_cases": len(hres),
            "feasible_paths": total_paths,
            "obligation_instances": oblig,
            "obligation_instances_discharged_unsat": disch,
            "obligation_instances_decided_by_constant_folding": sum(h.get("folded", 0) for h in hres),
            "distinct_obligations": msgs[:80],
            "harnesses_skipped": list(SKIPPED),
            "queries": sum(h["queries"] for h in hres),
            "solver": " ".join(solver) + " (4.8.12)",
            "solver_time_s": round(sum(h["solver_s"] for h in hres), 2),
            "functions_encoded": dict(sorted(enc.items())),
            "bounds": spec.get("bounds", {}),
            "stubs": sorted({"%s -> %s" % kv for h in hres for kv in (h.get("stubs") or {}).items()}),
            "outside_the_claim": spec.get("outside", []),
            "vacuity_witnesses_reached": sorted({r for h in hres for r in (h.get("reached") or [])}),
            "blocked_paths": sum(h.get("blocked", 0) for h in hres),
            "counterexamples_replayed_natively": nrep,
            "known_findings_reproduced": sorted(seen_known),
            "inconclusive": inconclusive[:20],
            "regenerated_from": REPO + " working tree (go/packages + go/ssa on every run)",
        },
        "assumptions": spec.get("assumptions", []),
        "wall_s": round(wall, 2),
        "violations": len(violations),
    }
    os.makedirs(os.path.join(ROOT, "evidence"), exist_ok=True)
    with open(os.path.join(ROOT, "evidence", prop + ".json"), "w") as f:
        json.dump(ev, f, indent=1)
    print("%s %s: cases=%d paths=%d obligations=%d discharged=%d queries=%d solver=%.1fs native-validated=%d wall=%.1fs" % (
        prop, tier, len(hres), total_paths, oblig, disch, ev["coverage"]["queries"], ev["coverage"]["solver_time_s"], validated, wall))
    if violations:
        seen = set()
        for h, x, rp in violations:
            if x["msg"] in seen:
                continue
            seen.add(x["msg"])
            print("VIOLATION property=%s replay=%s" % (prop, rp))
            print("   harness %s%s: %s" % (h["func"], h.get("params") or "", x["msg"]))
            print("   inputs: %s" % json.dumps(trim_model(x["model"]))[:600])
        for m in executor_missed[:5]:
            print("note: " + m)
        return 1
    if inconclusive:
        for m in inconclusive[:20]:
            print("INCONCLUSIVE: " + m)
        return 2
    return 0


def same_value(native, symbolic):
    if native == symbolic:
        return True
    try:
        a, b = int(native), int(symbolic)
        return (a - b) % (1 << 64) == 0
    except Exception:
        return False


def trim_model(m):
    if len(m) <= 40:
        return m
    keys = sorted(m)[:40]
    d = {k: m[k] for k in keys}
    d["..."] = "%d more" % (len(m) - 40)
    return d


def replay_cmd(path):
    r = json.load(open(path))
    prop = r["property"]
    spec = json.load(open(os.path.join(ROOT, "checks", prop + ".json")))
    ov = overlay_map(spec, r["pkg"])
    workdir = tempfile.mkdtemp(prefix="verif_replay_")
    try:
        reps = native_batch(r["pkg"], [{"harness": r["harness"], "model": r["model"], "params": r.get("params") or {}}], ov, workdir)
    finally:
        shutil.rmtree(workdir, ignore_errors=True)
    rep = reps[0]
    print(json.dumps(rep, indent=1))
    if reproduced(r, rep):
        print("REPRODUCED: %s" % r["msg"])
        return 1
    print("not reproduced")
    return 0


if __name__ == "__main__":
    sys.exit(main())
