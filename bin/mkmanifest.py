#!/usr/bin/env python3
"""Regenerate MANIFEST.json from checks/*.json (claimed properties) and na.json (the rest)."""
import json, os, glob
ROOT = os.path.dirname(os.path.dirname(os.path.abspath(__file__)))
props = [json.loads(l) for l in open(os.path.join(ROOT, "properties.jsonl"))]
na = json.load(open(os.path.join(ROOT, "na.json")))
checks = []
claimed = set()
for p in props:
    pid = p["id"]
    sp = os.path.join(ROOT, "checks", pid + ".json")
    if not os.path.exists(sp):
        continue
    spec = json.load(open(sp))
    if spec.get("unclaimed"):
        continue
    claimed.add(pid)
    checks.append({
        "property_id": pid,
        "quick_cmd": "python3 bin/check.py %s --tier quick" % pid,
        "thorough_cmd": "python3 bin/check.py %s --tier thorough" % pid,
        "evidence_file": "/verif/evidence/%s.json" % pid,
        "replay_cmd_template": "python3 bin/check.py --replay {path}",
        "engine": "gosx",
        "level_claimed": {"category": "model_checking", "text": spec["level_text"], "design_ref": "DESIGN.md section 4 (design) and section 8.6 (as built), " + pid},
        "level_note": spec["level_note"],
        "technique": spec.get("technique", "bounded symbolic execution of the real Go SSA into SMT-LIB2, decided by z3; counterexamples replayed natively"),
    })
not_app = []
for p in props:
    if p["id"] not in claimed:
        not_app.append({"property_id": p["id"], "reason": na.get(p["id"], "check not built yet in this session (see DESIGN.md section 4)")})
m = {
    "version": 1,
    "setup_cmd": "bash bin/setup.sh",
    "hooks": {
        "guard": "verif",
        "enable": "none needed: unexported code is reached through overlay shims (go/packages Overlay for the symbolic run, go test -overlay for native replays) mapped virtually into /repo; nothing is written under /repo",
        "baseline_off_cmd": "cd /repo && go test -mod=mod -vet=off -count=1 ./...",
        "source_commits": [],
        "add_only": True,
    },
    "engines": [{"name": "gosx", "path": "/verif/engine", "serves_properties": sorted(claimed),
                 "kind_free_text": "bounded symbolic executor for Go SSA (golang.org/x/tools/go/ssa) emitting SMT-LIB2 to a live z3 process; path exploration by re-execution; native replay of every counterexample"}],
    "checks": checks,
    "not_applicable": not_app,
    "notes": "Every check regenerates the encoding from /repo's working tree. exit 2 = inconclusive (never reported as success).",
}
json.dump(m, open(os.path.join(ROOT, "MANIFEST.json"), "w"), indent=1)
print("claimed:", len(claimed), "not applicable/unclaimed:", len(not_app))
