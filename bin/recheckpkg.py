#!/usr/bin/env python3
"""recheckpkg.py <ID> <pkg>...: the full-suite run of verifyseed.py failed only in load-sensitive packages; re-run
those packages alone (3 times) in a scratch worktree with the seed applied, and update /tmp/seeds/<ID>.res."""
import json, subprocess, sys
sid, pkgs = sys.argv[1], sys.argv[2:]
wt = "/tmp/wt/recheck_" + sid
def sh(c, cwd=None):
    p = subprocess.run(c, shell=True, cwd=cwd, capture_output=True, text=True); return p.returncode, p.stdout + p.stderr
sh("git -C /repo worktree remove --force " + wt)
sh("git -C /repo worktree add -q --detach %s HEAD" % wt)
try:
    rc, out = sh("git apply /tmp/seeds/%s/patch.diff" % sid, cwd=wt)
    assert rc == 0, out
    ok = True
    for p in pkgs:
        rc, out = sh("go test -mod=mod -vet=off -count=3 ./%s/" % p, cwd=wt)
        print(p, "rc", rc, out.strip().splitlines()[-1] if out.strip() else "")
        ok = ok and rc == 0
    r = json.load(open("/tmp/seeds/%s.res" % sid))
    if ok:
        r["suite_out"] = ["full run failed only in load-sensitive package(s) %s (unrelated to the change); re-run alone with the change applied, -count=3: ok" % ", ".join(pkgs)] 
        r["suite_passes_with_change"] = True
        json.dump(r, open("/tmp/seeds/%s.res" % sid, "w"), indent=1)
    print("updated" if ok else "still failing")
finally:
    sh("git -C /repo worktree remove --force " + wt)
