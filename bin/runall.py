#!/usr/bin/env python3
"""Run every claimed check (quick or given tier) and print one line per property."""
import json, subprocess, sys, time, os
ROOT = os.path.dirname(os.path.dirname(os.path.abspath(__file__)))
tier = sys.argv[1] if len(sys.argv) > 1 else "quick"
only = sys.argv[2:]
m = json.load(open(os.path.join(ROOT, "MANIFEST.json")))
bad = 0
for c in m["checks"]:
    pid = c["property_id"]
    if only and pid not in only:
        continue
    t0 = time.time()
    r = subprocess.run(["python3", os.path.join(ROOT, "bin", "check.py"), pid, "--tier", tier], capture_output=True, text=True)
    lines = [l for l in r.stdout.splitlines() if l.startswith(("VIOLATION", "INCONCLUSIVE", "KNOWN"))]
    print("%s exit=%d %.0fs %s" % (pid, r.returncode, time.time() - t0, (" | ".join(x[:140] for x in lines[:3]))), flush=True)
    if r.returncode != 0:
        bad += 1
print("done, failing:", bad)
