#!/usr/bin/env python3
"""seedcheck.py [ids...]: regression over the kept seeded changes. For every /verif/seeded/<id>
(or the given ids) apply patch.diff to /repo (exclusive lock), run the property's quick check,
undo, and compare the exit code with the one recorded in meta.json (1 = reported; 0 only for
seeds judged not to break the property). Prints one line per seed; exit 1 if any differs."""
import fcntl, glob, json, os, subprocess, sys, time
ROOT = os.path.dirname(os.path.dirname(os.path.abspath(__file__)))
ids = sys.argv[1:] or sorted(os.path.basename(os.path.dirname(p)) for p in glob.glob(os.path.join(ROOT, "seeded", "*", "meta.json")))
lockf = open("/tmp/repo.lock", "w")
bad = 0
for sid in ids:
    d = os.path.join(ROOT, "seeded", sid)
    meta = json.load(open(os.path.join(d, "meta.json")))
    prop, want = meta["property"], meta["our_check"]["exit"]
    fcntl.flock(lockf, fcntl.LOCK_EX)
    t0 = time.time()
    try:
        r = subprocess.run(["git", "-C", "/repo", "apply", os.path.join(d, "patch.diff")], capture_output=True, text=True)
        if r.returncode != 0:
            print("%s: patch does not apply: %s" % (sid, r.stderr.strip()[:120]), flush=True)
            bad += 1
            continue
        r = subprocess.run(["python3", os.path.join(ROOT, "bin", "check.py"), prop, "--tier", "quick"], capture_output=True, text=True)
    finally:
        subprocess.run(["git", "-C", "/repo", "checkout", "--", "."])
        subprocess.run(["git", "-C", "/repo", "clean", "-fdq"])
        # the seeded run rewrote the evidence file: restore the committed one
        subprocess.run(["git", "-C", ROOT, "checkout", "--", "evidence/%s.json" % prop])
        fcntl.flock(lockf, fcntl.LOCK_UN)
    line = next((l for l in r.stdout.splitlines() if l.startswith("VIOLATION")), "")
    ok = r.returncode == want
    bad += 0 if ok else 1
    print("%s %s exit=%d (recorded %d) %.0fs %s" % ("ok  " if ok else "DIFF", sid, r.returncode, want, time.time() - t0, line[:100]), flush=True)
print("done, differing:", bad)
sys.exit(1 if bad else 0)
