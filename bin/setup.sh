#!/bin/bash
# Build the symbolic executor from files on disk (offline) and warm the Go build cache
# for the harness module so that checks start quickly.
set -e
cd "$(dirname "$0")/.."
export PATH=/opt/veriftools/go1.26.8/bin:$PATH GOTOOLCHAIN=local GOFLAGS=-mod=mod GOPROXY=off GOSUMDB=off
(cd engine && go build -o ../bin/gosx .)
cp /repo/go.sum harness/go.sum
(cd harness && go build ./... >/dev/null 2>&1 || true)
echo "setup ok"
