#!/usr/bin/env python3
"""storeseed.py <ID> <demo_pkg_dir> <run regex> <tags> <needs...>: keep a confirmed seeded change
under /verif/seeded/<ID>/ from /tmp/seeds/<ID>/ (+ /tmp/seeds/<ID>.res written by verifyseed.py)."""
import json, os, shutil, sys
sid, pkg, runre, tags = sys.argv[1:5]
needs = " ".join(sys.argv[5:])
src = "/tmp/seeds/" + sid
dst = "/verif/seeded/" + sid
res = json.load(open(src + ".res")) if os.path.exists(src + ".res") else {}
ok = all(res.get(k) for k in ("patch_applies", "builds", "suite_passes_with_change", "demo_fails_with_change", "demo_passes_without_change"))
if not ok:
    print("NOT CONFIRMED", res); sys.exit(1)
os.makedirs(dst, exist_ok=True)
for f in os.listdir(src):
    if f.endswith((".diff", "_test.go", ".md")):
        shutil.copy(os.path.join(src, f), dst)
tagflag = ("-tags %s " % tags) if tags and tags != "-" else ""
meta = {
    "property": res.get("property", sid.split("-")[0]),
    "needs_to_manifest": needs,
    "demonstration": {"file": "demo_test.go", "copy_to": pkg + "/zz_seed_demo_test.go",
                      "command": "go test -mod=mod -vet=off -count=1 %s-run '%s' ./%s/" % (tagflag, runre, pkg)},
    "confirmed_by_me": {
        "how": "bin/verifyseed.py in a scratch worktree of /repo HEAD: git apply patch.diff; go build ./...; full suite (go test -mod=mod -vet=off -count=1 ./...); demonstration with the change and after git apply -R",
        "patch_applies": res["patch_applies"], "builds": res["builds"], "suite_passes_with_change": res["suite_passes_with_change"],
        "demo_fails_with_change": res["demo_fails_with_change"], "demo_passes_without_change": res["demo_passes_without_change"]},
    "our_check": {"command": "git -C /repo apply patch.diff; python3 bin/check.py %s --tier quick; git -C /repo checkout -- ." % res.get("property"),
                  "exit": res.get("check_exit"), "lines": res.get("check_lines")},
}
json.dump(meta, open(os.path.join(dst, "meta.json"), "w"), indent=1)
print("stored", dst, "check_exit", res.get("check_exit"))
