#!/usr/bin/env python3
"""trymut.py PROP FILE OLD NEW [--tier T]: apply a one-line textual mutation to /repo/FILE, run the
property's check, restore the file. Prints the check's verdict (expects exit 1)."""
import sys, subprocess, os
prop, f, old, new = sys.argv[1:5]
tier = sys.argv[6] if len(sys.argv) > 6 else "quick"
p = os.path.join("/repo", f)
import fcntl
lockf = open("/tmp/repo.lock", "w")
fcntl.flock(lockf, fcntl.LOCK_EX)
s = open(p).read()
if s.count(old) < 1:
    print("MUTANT NOT APPLICABLE: pattern not found"); sys.exit(3)
open(p, "w").write(s.replace(old, new, 1))
try:
    b = subprocess.run("cd /repo && go build ./... 2>&1 | tail -3", shell=True, capture_output=True, text=True)
    if b.stdout.strip():
        print("mutant does not compile:", b.stdout); sys.exit(3)
    r = subprocess.run(["python3", os.path.join(os.path.dirname(__file__), "check.py"), prop, "--tier", tier], capture_output=True, text=True)
    lines = [l for l in r.stdout.splitlines() if l.startswith(("VIOLATION", "INCONCLUSIVE", "   harness"))][:6]
    print("exit", r.returncode, "|", " || ".join(lines) if lines else r.stdout[-300:])
finally:
    open(p, "w").write(s)
