#!/usr/bin/env python3
"""tryseed.py <seed dir or patch> [PROP] [--tier T]: apply a seeded change to /repo (exclusive lock), run the
property's check, undo. Prints the verdict (expects exit 1)."""
import sys, subprocess, os, fcntl, json
src = sys.argv[1]
patch = src if src.endswith(".diff") else os.path.join(src, "patch.diff")
prop = sys.argv[2] if len(sys.argv) > 2 and not sys.argv[2].startswith("--") else json.load(open(os.path.join(src, "meta.json")))["property"]
tier = sys.argv[sys.argv.index("--tier") + 1] if "--tier" in sys.argv else "quick"
lockf = open("/tmp/repo.lock", "w")
fcntl.flock(lockf, fcntl.LOCK_EX)
r = subprocess.run(["git", "-C", "/repo", "apply", patch], capture_output=True, text=True)
if r.returncode != 0:
    print("patch does not apply:", r.stderr); sys.exit(3)
try:
    r = subprocess.run(["python3", os.path.join(os.path.dirname(__file__), "check.py"), prop, "--tier", tier], capture_output=True, text=True)
    lines = [l for l in r.stdout.splitlines() if l.startswith(("VIOLATION", "INCONCLUSIVE", "   harness"))][:6]
    print("exit", r.returncode, "|", " || ".join(lines) if lines else r.stdout[-300:])
finally:
    subprocess.run(["git", "-C", "/repo", "checkout", "--", "."])
    # the seeded run rewrote the evidence file: restore the committed one
    subprocess.run(["git", "-C", "/verif", "checkout", "--", "evidence/%s.json" % prop])
