#!/usr/bin/env python3
"""verifyseed.py <ID> <src_seed_dir> <demo_pkg_dir> [demo run regex] [build tags]
Confirm a seeded breaking change independently, in a scratch worktree of /repo's HEAD:
 patch applies, builds, the full existing suite passes with it, the demonstration fails with
 it and passes without it. Then run our check for the property against /repo with the patch
 applied (and undo). Prints a JSON summary."""
import json, os, subprocess, sys, shutil, glob
sid, seed, demo_pkg = sys.argv[1], sys.argv[2], sys.argv[3]
runre = sys.argv[4] if len(sys.argv) > 4 else "."
tags = sys.argv[5] if len(sys.argv) > 5 else ""
prop = sid.split("-")[0]
wt = "/tmp/wt/verify_" + sid
def sh(cmd, cwd=None, timeout=3600):
    p = subprocess.run(cmd, shell=True, cwd=cwd, capture_output=True, text=True, timeout=timeout)
    return p.returncode, (p.stdout + p.stderr)
sh("git -C /repo worktree remove --force %s" % wt)
rc, out = sh("git -C /repo worktree add -q --detach %s HEAD" % wt)
res = {"id": sid, "property": prop}
try:
    patch = os.path.join(seed, "patch.diff")
    rc, out = sh("git apply --3way %s || git apply %s" % (patch, patch), cwd=wt)
    res["patch_applies"] = rc == 0
    if rc != 0:
        res["apply_out"] = out[-500:]
        raise SystemExit
    rc, out = sh("go build ./...", cwd=wt)
    res["builds"] = rc == 0
    rc, out = sh("go test -mod=mod -vet=off -count=1 ./... 2>&1 | grep -v '^ok\\|no test files' ", cwd=wt)
    fails = [l for l in out.splitlines() if l.strip()]
    res["suite_passes_with_change"] = len(fails) == 0
    res["suite_out"] = fails[:6]
    demos = glob.glob(os.path.join(seed, "*_test.go"))
    tagflag = ("-tags " + tags) if tags else ""
    for d in demos:
        shutil.copy(d, os.path.join(wt, demo_pkg, "zz_seed_demo_test.go"))
    rc1, out1 = sh("go test -mod=mod -vet=off -count=1 %s -run '%s' ./%s/" % (tagflag, runre, demo_pkg), cwd=wt)
    res["demo_fails_with_change"] = rc1 != 0
    sh("git apply -R %s" % patch, cwd=wt)
    rc2, out2 = sh("go test -mod=mod -vet=off -count=1 %s -run '%s' ./%s/" % (tagflag, runre, demo_pkg), cwd=wt)
    res["demo_passes_without_change"] = rc2 == 0
    if rc2 != 0:
        res["demo_out_without"] = out2[-600:]
    if os.environ.get("VERIFYSEED_NOCHECK"):
        raise SystemExit
    # our check against /repo with the patch (exclusive use of /repo)
    import fcntl
    lockf = open("/tmp/repo.lock", "w")
    fcntl.flock(lockf, fcntl.LOCK_EX)
    rc, out = sh("git -C /repo apply %s" % patch)
    if rc == 0:
        try:
            rc, out = sh("python3 /verif/bin/check.py %s --tier quick" % prop, timeout=3000)
            res["check_exit"] = rc
            res["check_lines"] = [l[:200] for l in out.splitlines() if l.startswith(("VIOLATION", "INCONCLUSIVE", "   harness"))][:4]
        finally:
            sh("git -C /repo checkout -- .")
            # the seeded run rewrote the evidence file restore it
            sh("git -C /verif checkout -- evidence/%s.json" % prop)
    else:
        res["check_exit"] = "patch does not apply to /repo: " + out[-300:]
finally:
    sh("git -C /repo worktree remove --force %s" % wt)
    print(json.dumps(res, indent=1))
