package main

import (
	"go/token"
	"go/types"
	"math/big"
	"strings"

	"golang.org/x/tools/go/ssa"
)

type ChanObj struct {
	Q      []Value
	Cap    int
	Closed bool
	Elem   types.Type
	Tick   bool // a time.After channel: taking its tick lets (simulated) time pass
	// cooperative goroutines blocked in a plain receive, in the order they blocked (Go hands a
	// value to the longest waiter)
	Waiters []*coro
}
type VChan struct{ C *ChanObj }

func (e *Exec) chanRecvReady(c *ChanObj) bool { return c != nil && (len(c.Q) > 0 || c.Closed) }
func (e *Exec) chanSendReady(c *ChanObj) bool {
	if c != nil && c.Cap == 0 && e.curCoro != nil {
		// unbuffered, among cooperative goroutines: an offer can be made when none is pending
		return !c.Closed && len(c.Q) == 0
	}
	return c != nil && !c.Closed && len(c.Q) < c.Cap
}

func (e *Exec) chanRecv(c *ChanObj) (Value, bool) {
	if len(c.Q) > 0 {
		v := c.Q[0]
		c.Q = c.Q[1:]
		return v, true
	}
	return zero(c.Elem), false
}

// ---- cooperative goroutines (sym.RunGoroutines) ----
//
// Each body runs on its own Go goroutine of the executor, but only one runs at a time: a body
// runs until it blocks on a channel operation (or takes a time.After tick), then parks and the
// scheduler (the RunGoroutines intrinsic, on the main interpreter goroutine) resumes the next
// one. When every body is parked without progress the scripted environment gets a turn.

type coro struct {
	resume   chan bool // true = run, false = die
	yielded  chan struct{}
	done     bool
	panicVal any
	depth    int
	fnStack  []*ssa.Function
}

type coroDie struct{}

// yield parks the running body until the scheduler resumes it.
func (e *Exec) yield() {
	c := e.curCoro
	c.depth, c.fnStack = e.depth, e.fnStack
	c.yielded <- struct{}{}
	if ok := <-c.resume; !ok {
		panic(coroDie{})
	}
	e.curCoro = c
	e.depth, e.fnStack = c.depth, c.fnStack
}

// maybePreempt: with preempt_sends, a goroutine may lose the processor right after a
// successful channel send (a fresh decision per send, so both continuations are explored).
func (e *Exec) maybePreempt() {
	if !e.preempt || e.curCoro == nil {
		return
	}
	e.nondet++
	if e.decide(e.fresh(sprintf("preempt_%d", e.nondet), SBool)) {
		e.yield()
	}
}

// blockedStep is called when the running code cannot proceed with a channel operation; it
// returns when it is worth re-examining the operation, or ends the path as BLOCKED.
func (e *Exec) blockedStep(what string) {
	if e.curCoro != nil {
		e.yield()
		return
	}
	if !e.envStep() {
		panic(pathEnd{"BLOCKED " + what})
	}
}

func (e *Exec) runGoroutines(env *VFunc, bodies []VFunc) bool {
	if e.curCoro != nil || len(e.coros) > 0 {
		e.fail("nested RunGoroutines")
	}
	d0, s0 := e.depth, e.fnStack
	var cs []*coro
	for _, b := range bodies {
		b := b
		c := &coro{resume: make(chan bool), yielded: make(chan struct{})}
		cs = append(cs, c)
		go func() {
			defer func() {
				if r := recover(); r != nil {
					if _, die := r.(coroDie); !die {
						c.panicVal = r
					}
				}
				c.done = true
				c.yielded <- struct{}{}
			}()
			if ok := <-c.resume; !ok {
				panic(coroDie{})
			}
			e.curCoro = c
			e.depth, e.fnStack = 0, nil
			e.callClosure(b, nil)
		}()
	}
	e.coros = cs
	defer func() {
		// path end or return: stop every parked body
		e.curCoro = nil
		for _, c := range cs {
			if !c.done {
				c.resume <- false
				<-c.yielded
			}
		}
		e.coros = nil
		e.depth, e.fnStack = d0, s0
	}()
	idle := 0
	for {
		progress, live := false, false
		for _, c := range cs {
			if c.done {
				continue
			}
			before := e.progress
			c.resume <- true
			<-c.yielded
			e.curCoro = nil
			e.depth, e.fnStack = d0, s0
			if c.panicVal != nil {
				pv := c.panicVal
				c.panicVal = nil
				panic(pv)
			}
			if e.progress != before || c.done {
				progress = true
			}
			if !c.done {
				live = true
			}
		}
		if !live {
			return false
		}
		if progress {
			idle = 0
			continue
		}
		acted := false
		if env != nil {
			acted = e.decide(e.callClosure(*env, nil).(VBool).T)
		}
		if acted {
			idle = 0
			continue
		}
		// one more round lets pollers observe the final state; then everything is blocked
		if idle++; idle > 1 {
			e.blocked++
			return true
		}
	}
}

// envStep gives the scripted environment of RunWithEnv a turn when the goroutine body under
// execution is about to block; it reports whether the environment did something.
func (e *Exec) envStep() bool {
	if len(e.envStack) == 0 || e.envRunning {
		return false
	}
	env := e.envStack[len(e.envStack)-1]
	e.envRunning = true
	r := e.callClosure(env, nil)
	e.envRunning = false
	return e.decide(r.(VBool).T)
}

func (e *Exec) doSelect(fr *frame, in *ssa.Select) Value {
	var ready []int
	for {
		ready = ready[:0]
		for i, st := range in.States {
			ch, _ := e.val(fr, st.Chan).(VChan)
			if st.Dir == types.RecvOnly {
				if e.chanRecvReady(ch.C) {
					ready = append(ready, i)
				}
			} else if e.chanSendReady(ch.C) {
				ready = append(ready, i)
			}
		}
		if len(ready) > 0 || !in.Blocking {
			break
		}
		e.blockedStep("in select at " + fr.fn.String())
	}
	idx := -1
	switch {
	case len(ready) == 0:
		idx = -1
	default:
		// nondeterministic choice among ready cases: fork via fresh booleans
		idx = ready[len(ready)-1]
		for _, r := range ready[:len(ready)-1] {
			e.nondet++
			if e.decide(e.fresh(sprintf("select_%d", e.nondet), SBool)) {
				idx = r
				break
			}
		}
	}
	if idx >= 0 {
		if ch, _ := e.val(fr, in.States[idx].Chan).(VChan); ch.C == nil || !ch.C.Tick {
			e.progress++
			if in.States[idx].Dir != types.RecvOnly {
				defer e.maybePreempt()
			}
		} else if e.curCoro != nil {
			e.yield() // a poller: time passes, the other goroutines run
		}
	}
	if idx >= 0 && e.curCoro == nil && len(e.envStack) > 0 && !e.envRunning {
		// polling: taking a time.After tick lets time pass, so the scripted environment gets a
		// turn; polling on with an environment that has nothing left to do is a blocked path
		if ch, _ := e.val(fr, in.States[idx].Chan).(VChan); ch.C != nil && ch.C.Tick {
			if e.envStep() {
				e.idleTicks = 0
			} else if e.idleTicks++; e.idleTicks > 2 {
				panic(pathEnd{"BLOCKED polling in " + fr.fn.String()})
			}
		}
	}
	res := []Value{VInt{lenC(idx)}, VBool{BoolC(false)}}
	for i, st := range in.States {
		if st.Dir != types.RecvOnly {
			if i == idx {
				ch := e.val(fr, st.Chan).(VChan)
				ch.C.Q = append(ch.C.Q, e.val(fr, st.Send))
			}
			continue
		}
		ch, _ := e.val(fr, st.Chan).(VChan)
		var v Value
		if i == idx {
			var ok bool
			v, ok = e.chanRecv(ch.C)
			res[1] = VBool{BoolC(ok)}
		} else {
			v = zero(st.Chan.Type().Underlying().(*types.Chan).Elem())
		}
		res = append(res, v)
	}
	return VTuple{res}
}

func init() {
	noop := func(e *Exec, a []Value) Value { return nil }
	for _, n := range []string{
		"(*sync.RWMutex).Lock", "(*sync.RWMutex).Unlock",
		"(*sync.RWMutex).RLock", "(*sync.RWMutex).RUnlock",
	} {
		intrinsics[n] = noop
	}
	// sync.Mutex: sequential (no-op) outside RunGoroutines; among cooperative goroutines a
	// held mutex blocks the next Lock until it is released
	intrinsics["(*sync.Mutex).Lock"] = func(e *Exec, a []Value) Value {
		if len(e.coros) == 0 {
			return nil
		}
		c := a[0].(VPtr).C
		for mutexHeld[c] {
			mutexWaiters[c]++
			e.blockedStep("on a held mutex")
			mutexWaiters[c]--
		}
		mutexHeld[c] = true
		return nil
	}
	intrinsics["(*sync.Mutex).Unlock"] = func(e *Exec, a []Value) Value {
		if len(e.coros) == 0 {
			return nil
		}
		c := a[0].(VPtr).C
		delete(mutexHeld, c)
		if mutexWaiters[c] > 0 {
			e.progress++ // someone can go on now (a lock/unlock pair by itself is not progress)
		}
		return nil
	}
	intrinsics["(*sync.Mutex).TryLock"] = func(e *Exec, a []Value) Value {
		c := a[0].(VPtr).C
		if len(e.coros) > 0 && mutexHeld[c] {
			return VBool{BoolC(false)}
		}
		if len(e.coros) > 0 {
			mutexHeld[c] = true
		}
		return VBool{BoolC(true)}
	}
	fieldV := func(a Value) *Cell {
		c := a.(VPtr).C
		st := c.Typ.Underlying().(*types.Struct)
		for i := 0; i < st.NumFields(); i++ {
			if st.Field(i).Name() == "v" {
				return c.Fields[i]
			}
		}
		panic("no v field in " + c.Typ.String())
	}
	for _, ty := range []struct {
		n string
		t types.Type
	}{{"Int32", types.Typ[types.Int32]}, {"Int64", types.Typ[types.Int64]}, {"Uint32", types.Typ[types.Uint32]}, {"Uint64", types.Typ[types.Uint64]}} {
		ty := ty
		pre := "(*sync/atomic." + ty.n + ")."
		intrinsics[pre+"Add"] = func(e *Exec, a []Value) Value {
			c := fieldV(a[0])
			nv := e.binop(token.ADD, c.V, a[1], ty.t)
			c.V = nv
			return nv
		}
		intrinsics[pre+"Load"] = func(e *Exec, a []Value) Value { return fieldV(a[0]).V }
		intrinsics[pre+"Store"] = func(e *Exec, a []Value) Value { fieldV(a[0]).V = a[1]; return nil }
		intrinsics[pre+"Swap"] = func(e *Exec, a []Value) Value {
			c := fieldV(a[0])
			old := c.V
			c.V = a[1]
			return old
		}
		intrinsics[pre+"CompareAndSwap"] = func(e *Exec, a []Value) Value {
			c := fieldV(a[0])
			if e.decide(e.deepEq(c.V, a[1])) {
				c.V = a[2]
				return VBool{BoolC(true)}
			}
			return VBool{BoolC(false)}
		}
	}
	intrinsics["(*sync/atomic.Bool).Store"] = func(e *Exec, a []Value) Value {
		c := fieldV(a[0])
		b := a[1].(VBool).T
		w, _ := typeWS(c.Typ)
		if intMode {
			c.V = VInt{Ite(b, IntC(big.NewInt(1)), IntC(bigZero()))}
		} else {
			c.V = VInt{Ite(b, BVu(w, 1), BVu(w, 0))}
		}
		return nil
	}
	intrinsics["(*sync/atomic.Bool).Swap"] = func(e *Exec, a []Value) Value {
		c := fieldV(a[0])
		old := c.V.(VInt).T
		b := a[1].(VBool).T
		w, _ := typeWS(c.Typ)
		if intMode {
			c.V = VInt{Ite(b, IntC(big.NewInt(1)), IntC(bigZero()))}
		} else {
			c.V = VInt{Ite(b, BVu(w, 1), BVu(w, 0))}
		}
		return VBool{Not(Eq(old, idxC(old, 0)))}
	}
	intrinsics["(*sync/atomic.Bool).Load"] = func(e *Exec, a []Value) Value {
		v := fieldV(a[0]).V.(VInt).T
		return VBool{Not(Eq(v, idxC(v, 0)))}
	}
	// timers: a timer's channel holds one tick that may be taken at any time until Stop()
	// disarms it (no model of time: "may fire at any moment")
	newTick := func(e *Exec) *ChanObj {
		return &ChanObj{Cap: 1, Elem: timeType, Q: []Value{zero(timeType)}}
	}
	intrinsics["time.NewTimer"] = func(e *Exec, a []Value) Value {
		var tt types.Type
		for _, p := range e.prog.AllPackages() {
			if p.Pkg.Path() == "time" {
				tt = p.Pkg.Scope().Lookup("Timer").Type()
			}
		}
		c := newCell(tt)
		c.Fields[0].V = VChan{newTick(e)}
		e.events = append(e.events, "timer")
		return VPtr{c}
	}
	intrinsics["(*time.Timer).Stop"] = func(e *Exec, a []Value) Value {
		c := a[0].(VPtr).C
		ch := c.Fields[0].V.(VChan).C
		active := len(ch.Q) > 0
		ch.Q = nil
		return VBool{BoolC(active)}
	}
	intrinsics["time.After"] = func(e *Exec, a []Value) Value {
		c := newTick(e)
		c.Tick = true
		return VChan{c}
	}
	intrinsics["time.Now"] = func(e *Exec, a []Value) Value { return zero(timeType) }
	clock := func(e *Exec, a []Value) Value {
		e.nondet++
		if intMode {
			return VInt{e.imFresh(sprintf("clock_%d", e.nondet), 64, true)}
		}
		return VInt{e.fresh(sprintf("clock_%d", e.nondet), 64)}
	}
	intrinsics["(time.Time).Add"] = func(e *Exec, a []Value) Value { return zero(timeType) }
	intrinsics["(time.Time).Sub"] = clock
	intrinsics["(time.Time).Before"] = func(e *Exec, a []Value) Value {
		e.nondet++
		return VBool{e.fresh(sprintf("time_before_%d", e.nondet), SBool)}
	}
	intrinsics["(time.Time).After"] = intrinsics["(time.Time).Before"]
	intrinsics["(time.Time).UnixNano"] = clock
	intrinsics["(time.Time).Unix"] = clock
	intrinsics["(time.Time).UnixMilli"] = clock
	intrinsics["time.Since"] = func(e *Exec, a []Value) Value {
		e.nondet++
		if intMode {
			return VInt{e.imFresh(sprintf("dur_%d", e.nondet), 64, true)}
		}
		return VInt{e.fresh(sprintf("dur_%d", e.nondet), 64)}
	}
}

var timeType types.Type

func isNoopCallee(name string) bool {
	return strings.Contains(name, "PipelineMetrics).Record")
}

func init() {
	for _, ty := range []struct {
		n string
		t types.Type
	}{{"Int32", types.Typ[types.Int32]}, {"Int64", types.Typ[types.Int64]}, {"Uint32", types.Typ[types.Uint32]}, {"Uint64", types.Typ[types.Uint64]}} {
		ty := ty
		intrinsics["sync/atomic.Load"+ty.n] = func(e *Exec, a []Value) Value { return e.loadPtr(a[0]) }
		intrinsics["sync/atomic.Store"+ty.n] = func(e *Exec, a []Value) Value { e.storePtr(a[0], a[1]); return nil }
		intrinsics["sync/atomic.Add"+ty.n] = func(e *Exec, a []Value) Value {
			nv := e.binop(token.ADD, e.loadPtr(a[0]), a[1], ty.t)
			e.storePtr(a[0], nv)
			return nv
		}
		intrinsics["sync/atomic.Swap"+ty.n] = func(e *Exec, a []Value) Value {
			old := e.loadPtr(a[0])
			e.storePtr(a[0], a[1])
			return old
		}
		intrinsics["sync/atomic.CompareAndSwap"+ty.n] = func(e *Exec, a []Value) Value {
			old := e.loadPtr(a[0])
			eq := e.deepEq(old, a[1])
			if e.decide(eq) {
				e.storePtr(a[0], a[2])
				return VBool{BoolC(true)}
			}
			return VBool{BoolC(false)}
		}
	}
}

func init() {
	noop := func(e *Exec, a []Value) Value { return nil }
	for _, n := range []string{"(*sync.WaitGroup).Add", "(*sync.WaitGroup).Done", "(*sync.WaitGroup).Wait", "(*sync.WaitGroup).Go"} {
		intrinsics[n] = noop
	}
	intrinsics["(*sync.Once).Do"] = func(e *Exec, a []Value) Value {
		c := a[0].(VPtr).C
		if onceDone[c] {
			return nil
		}
		onceDone[c] = true
		return e.callClosure(a[1].(VFunc), nil)
	}
	intrinsics["errors.Is"] = func(e *Exec, a []Value) Value {
		return VBool{e.errorsIs(a[0].(VIface), a[1].(VIface))}
	}
	intrinsics["errors.As"] = func(e *Exec, a []Value) Value {
		return VBool{BoolC(e.errorsAs(a[0].(VIface), a[1].(VIface)))}
	}
}

var onceDone = map[*Cell]bool{}
var mutexHeld = map[*Cell]bool{}
var mutexWaiters = map[*Cell]int{}

// strings.Builder with concrete contents (shadow state, reset per path together with onceDone)
var builders = map[*Cell]string{}

func init() {
	intrinsics["(*strings.Builder).WriteString"] = func(e *Exec, a []Value) Value {
		c := a[0].(VPtr).C
		s, ok := a[1].(VStr)
		if !ok {
			e.fail("strings.Builder.WriteString of a non-concrete string")
		}
		builders[c] += s.S
		return VTuple{[]Value{VInt{lenC(len(s.S))}, zero(errType)}}
	}
	intrinsics["(*strings.Builder).WriteByte"] = func(e *Exec, a []Value) Value {
		c := a[0].(VPtr).C
		t := e.concretise(a[1].(VInt).T)
		if !t.Const {
			e.fail("strings.Builder.WriteByte of a non-concrete byte")
		}
		builders[c] += string([]byte{byte(t.U.Uint64())})
		return zero(errType)
	}
	intrinsics["(*strings.Builder).String"] = func(e *Exec, a []Value) Value { return VStr{builders[a[0].(VPtr).C]} }
	intrinsics["(*strings.Builder).Len"] = func(e *Exec, a []Value) Value { return VInt{lenC(len(builders[a[0].(VPtr).C]))} }
	intrinsics["(*strings.Builder).Grow"] = func(e *Exec, a []Value) Value { return nil }
	intrinsics["(*strings.Builder).Reset"] = func(e *Exec, a []Value) Value { delete(builders, a[0].(VPtr).C); return nil }
}
