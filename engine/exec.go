package main

import (
	"crypto/sha256"
	"fmt"
	"go/constant"
	"go/token"
	"go/types"
	"math/big"
	"os"
	"strings"
	"time"

	"golang.org/x/tools/go/ssa"
)

func bigZero() *big.Int { return new(big.Int) }

var sprintf = fmt.Sprintf

func lenC(n int) Term {
	if intMode {
		return IntC(big.NewInt(int64(n)))
	}
	return BVu(64, uint64(n))
}

func idxC(like Term, i int) Term {
	if like.Sort == SInt {
		return IntC(big.NewInt(int64(i)))
	}
	return BVu(like.Sort, uint64(i))
}

type pathEnd struct{ why string }

var debugDecisions = os.Getenv("DECISIONS") != ""

var noopPackages = map[string]bool{"log/slog": true, "log": true}

type Finding struct {
	Kind   string // assert | panic
	Msg    string
	Model  map[string]string
	Path   []bool
	Region string
	What   string
}

type Exec struct {
	prog      *ssa.Program
	sol       *Solver
	prefix    []bool
	decisions []bool
	pending   [][]bool
	symNames  []string
	symSeen   map[string]bool
	findings  []Finding
	seenFind  map[string]bool
	paths     int
	branches  int
	depth     int
	executed  map[string]int // function -> instr count
	stubs     map[string]*ssa.Function
	maxLoop   int
	loopCount map[string]int
	unwound   []string
	trace     bool
	reached   map[string]bool
	nondet    int
	lenient   bool
	initPkgs  map[string]bool

	params       map[string]int
	known        []Known
	knownHit     map[string]bool
	oblMsgs      map[string]bool
	regions      map[string]Term
	obs          map[string]Term
	obsOrder     []string
	pathSyms     []string
	maxPaths     int
	truncated    bool
	nSamples     int
	samples      []SampleOut
	nObl         int
	nDischarged  int
	nTrivial     int
	blocked      int
	envStack     []VFunc
	envRunning   bool
	idleTicks    int
	prefer       *Term
	natural      bool
	fpPrecise    bool
	preempt      bool
	coros        []*coro
	curCoro      *coro
	progress     int
	initStored   map[*ssa.Global]bool
	initDone     map[*ssa.Global]bool
	poisoned     map[*ssa.Global]string
	makeSliceMax int
	events       []string
	fnStack      []*ssa.Function
	symDecisions int
	loopSeen     map[string]int
	concCount    map[string]int

	injectFailures bool
	builtinStubs   map[string]string
	hashSeq        int
	hashMemo       map[string]string
	encMemo        map[string]Value
	hashApps       []hashApp
	deadline       time.Time
	timedOut       bool
}

func (e *Exec) callerIsInit() bool {
	if len(e.fnStack) == 0 {
		return false
	}
	n := e.fnStack[len(e.fnStack)-1].Name()
	return n == "init" || strings.HasPrefix(n, "init#")
}

type frame struct {
	fn     *ssa.Function
	env    map[ssa.Value]Value
	defers []func()
}

func (e *Exec) fail(format string, a ...any) {
	panic(fmt.Sprintf("UNSUPPORTED: "+format, a...))
}

// ---- exploration driver ----

func (e *Exec) Explore(fn *ssa.Function) {
	e.pending = [][]bool{{}}
	for len(e.pending) > 0 {
		if e.maxPaths > 0 && e.paths >= e.maxPaths {
			e.truncated = true
			return
		}
		if !e.deadline.IsZero() && time.Now().After(e.deadline) {
			e.truncated = true
			e.timedOut = true
			return
		}
		p := e.pending[len(e.pending)-1]
		e.pending = e.pending[:len(e.pending)-1]
		e.runPath(fn, p)
	}
}

func (e *Exec) runPath(fn *ssa.Function, prefix []bool) {
	e.prefix = prefix
	e.decisions = nil
	e.loopCount = map[string]int{}
	e.loopSeen = map[string]int{}
	e.concCount = map[string]int{}
	e.symDecisions = 0
	e.hashSeq = 0
	e.hashMemo = map[string]string{}
	e.encMemo = map[string]Value{}
	e.hashApps = nil
	e.nondet = 0
	e.envStack, e.envRunning, e.idleTicks = nil, false, 0
	e.coros, e.curCoro, e.progress = nil, nil, 0
	e.sol.Push()
	defer e.sol.Pop()
	e.paths++
	if e.paths%500 == 0 && os.Getenv("PROGRESS") != "" {
		fmt.Printf("  .. paths=%d pending=%d queries=%d solver=%.1fs\n", e.paths, len(e.pending), e.sol.Queries, e.sol.Time.Seconds())
	}
	arrIDs = map[*Cell]int{}
	onceDone = map[*Cell]bool{}
	mutexHeld = map[*Cell]bool{}
	mutexWaiters = map[*Cell]int{}
	builders = map[*Cell]string{}
	globals = map[*ssa.Global]*Cell{}
	cellOwner = map[*Cell]*ssa.Global{}
	e.regions = map[string]Term{}
	e.obs = map[string]Term{}
	e.obsOrder = nil
	e.pathSyms = nil
	e.events = nil
	e.restoreGlobals()
	end := "return"
	func() {
		defer func() {
			if r := recover(); r != nil {
				if pe, ok := r.(pathEnd); ok {
					if e.trace {
						fmt.Println("  path end:", pe.why)
					}
					end = pe.why
					if strings.HasPrefix(pe.why, "BLOCKED") {
						e.blocked++
					}
					return
				}
				panic(r)
			}
		}()
		e.call(fn, nil)
	}()
	if len(e.samples) < e.nSamples && (end == "return" || strings.HasPrefix(end, "BLOCKED")) {
		e.takeSample(end)
	}
}

// takeSample asks the solver for a model of the current (completed) path and evaluates the
// harness's observation terms under it.
func (e *Exec) takeSample(end string) {
	var obsNames []string
	for i, n := range e.obsOrder {
		t := e.obs[n]
		if t.Const {
			continue
		}
		on := fmt.Sprintf("obs!%d", i)
		e.sol.Declare(on, t.Sort)
		e.sol.Assert(Eq(Term{S: on, Sort: t.Sort}, t))
		obsNames = append(obsNames, on)
	}
	if e.sol.Check() != "sat" {
		return
	}
	s := SampleOut{Model: e.sol.GetValues(e.pathSyms), Obs: map[string]string{}, End: end}
	ov := e.sol.GetValues(obsNames)
	for i, n := range e.obsOrder {
		t := e.obs[n]
		if t.Const {
			s.Obs[n] = constStr(t)
		} else {
			s.Obs[n] = ov[fmt.Sprintf("obs!%d", i)]
		}
	}
	e.samples = append(e.samples, s)
}

func constStr(t Term) string {
	if t.Sort == SBool {
		if t.B {
			return "true"
		}
		return "false"
	}
	return t.U.String()
}

// branch on a symbolic condition; returns the chosen side
func (e *Exec) decide(cond Term) bool {
	if cond.Const {
		return cond.B
	}
	e.branches++
	e.symDecisions++
	if debugDecisions && len(e.fnStack) > 0 {
		c := cond.S
		if len(c) > 90 {
			c = c[:90]
		}
		fmt.Printf("DECIDE in %s: %s\n", e.fnStack[len(e.fnStack)-1].Name(), c)
	}
	pos := len(e.decisions)
	if pos < len(e.prefix) {
		d := e.prefix[pos]
		e.decisions = append(e.decisions, d)
		if d {
			e.sol.Assert(cond)
		} else {
			e.sol.Assert(Not(cond))
		}
		return d
	}
	e.sol.Push()
	e.sol.Assert(cond)
	rt := e.sol.Check()
	e.sol.Pop()
	e.sol.Push()
	e.sol.Assert(Not(cond))
	rf := e.sol.Check()
	e.sol.Pop()
	if strings.HasPrefix(rt, "error") || strings.HasPrefix(rf, "error") {
		panic("solver error: " + rt + " / " + rf)
	}
	tOK, fOK := rt != "unsat", rf != "unsat"
	switch {
	case tOK && fOK:
		sib := append(append([]bool{}, e.decisions...), false)
		e.pending = append(e.pending, sib)
		e.decisions = append(e.decisions, true)
		e.sol.Assert(cond)
		return true
	case tOK:
		e.decisions = append(e.decisions, true)
		e.sol.Assert(cond)
		return true
	case fOK:
		e.decisions = append(e.decisions, false)
		e.sol.Assert(Not(cond))
		return false
	}
	panic(pathEnd{"infeasible"})
}

// obligation: cond must hold on this path; report if it can fail, then assume it.
// Known-finding regions (declared by the harness with sym.Region and listed in the job) split
// the failing set: a failure outside every listed region is a finding, a failure inside a
// listed region is a known hit.
func (e *Exec) oblige(cond Term, kind, msg string) { e.obligeX(cond, kind, msg, true) }

func (e *Exec) obligeX(cond Term, kind, msg string, assumeAfter bool) {
	if cond.Const && cond.B {
		if kind == "assert" {
			e.nTrivial++
			e.oblMsgs[kind+": "+msg] = true
		}
		return
	}
	e.nObl++
	e.oblMsgs[kind+": "+msg] = true
	var active []Known
	for _, k := range e.known {
		if strings.Contains(msg, k.Obligation) {
			if _, ok := e.regions[k.Region]; ok {
				active = append(active, k)
			}
		}
	}
	outside := Not(cond)
	for _, k := range active {
		outside = And(outside, Not(e.regions[k.Region]))
	}
	failing := false
	e.sol.Push()
	e.sol.Assert(outside)
	r := e.sol.Check()
	if r == "sat" {
		failing = true
		key := kind + "|" + msg
		if !e.seenFind[key] {
			e.seenFind[key] = true
			var m map[string]string
			if e.natural && e.prefer == nil {
				// prefer a counterexample with "ordinary" input values (distinct, odd, neither
				// tiny nor huge): more likely to reproduce natively when the failure also
				// depends on something the executor abstracts (floating point)
				if nat, ok := e.naturalModel(); ok {
					m = nat
				}
			}
			if e.prefer != nil {
				// a more telling counterexample if there is one (e.g. a large allocation)
				e.sol.Push()
				e.sol.Assert(*e.prefer)
				if e.sol.Check() == "sat" {
					m = e.sol.GetValues(e.pathSyms)
				}
				e.sol.Pop()
				if m == nil && e.sol.Check() != "sat" {
					panic("inconclusive obligation: model lost " + msg)
				}
			}
			if m == nil {
				m = e.sol.GetValues(e.pathSyms)
			}
			e.findings = append(e.findings, Finding{Kind: kind, Msg: msg, Model: m, Path: append([]bool{}, e.decisions...)})
		}
	} else if r != "unsat" {
		e.sol.Pop()
		panic("inconclusive obligation: " + r + " " + msg)
	}
	e.sol.Pop()
	for _, k := range active {
		e.sol.Push()
		e.sol.Assert(And(Not(cond), e.regions[k.Region]))
		r := e.sol.Check()
		if r == "sat" {
			failing = true
			key := k.Region + "|" + k.Obligation
			if !e.knownHit[key] {
				e.knownHit[key] = true
				m := e.sol.GetValues(e.pathSyms)
				e.findings = append(e.findings, Finding{Kind: kind, Msg: msg, Model: m, Path: append([]bool{}, e.decisions...), Region: k.Region, What: k.What})
			}
		} else if r != "unsat" {
			e.sol.Pop()
			panic("inconclusive obligation: " + r + " " + msg)
		}
		e.sol.Pop()
	}
	if !failing {
		e.nDischarged++
	}
	if !assumeAfter {
		return
	}
	if cond.Const && !cond.B {
		panic(pathEnd{"always fails: " + msg})
	}
	e.sol.Assert(cond)
	if failing {
		// the remaining path assumes cond; make sure it is still feasible
		if e.sol.Check() == "unsat" {
			panic(pathEnd{"only failing: " + msg})
		}
	}
}

// check: like oblige but the path continues without assuming cond (report and continue)
func (e *Exec) check(cond Term, kind, msg string) { e.obligeX(cond, kind, msg, false) }

func (e *Exec) assume(cond Term) {
	if cond.Const {
		if !cond.B {
			panic(pathEnd{"assume false"})
		}
		return
	}
	e.sol.Assert(cond)
	if e.sol.Check() == "unsat" {
		panic(pathEnd{"assume infeasible"})
	}
}

// naturalModel looks for a model of the current solver state in which the harness inputs
// (integer symbols other than the executor's own nondeterminism) are pairwise distinct odd
// numbers in 3..2^40.
func (e *Exec) naturalModel() (map[string]string, bool) {
	var ins []Term
	for _, n := range e.pathSyms {
		if strings.HasPrefix(n, "f2i_") || strings.HasPrefix(n, "fcmp_") || strings.HasPrefix(n, "select_") || strings.HasPrefix(n, "cz!") || strings.HasPrefix(n, "clock_") {
			continue
		}
		srt, ok := e.sol.decls[n]
		if !ok {
			continue
		}
		switch {
		case srt == "Int":
			ins = append(ins, Term{S: n, Sort: SInt})
		case strings.HasPrefix(srt, "(_ BitVec 64)"):
			ins = append(ins, Term{S: n, Sort: 64})
		}
	}
	if len(ins) == 0 {
		return nil, false
	}
	e.sol.Push()
	defer e.sol.Pop()
	for i, t := range ins {
		lo, hi := int64(3+2*i), int64(1)<<40
		if t.Sort == SInt {
			e.sol.Assert(And(IntCmp(">=", t, IntC(big.NewInt(lo))), IntCmp("<", t, IntC(big.NewInt(hi)))))
			e.sol.Assert(IntCmp("=", app(SInt, "mod", t, IntC(big.NewInt(2))), IntC(big.NewInt(1))))
		} else {
			e.sol.Assert(And(tLe(i64(int(lo)), t), tLe(t, i64(int(hi)))))
			e.sol.Assert(Eq(BVBin("&", t, BVu(64, 1), false), BVu(64, 1)))
		}
		for _, u := range ins[:i] {
			if u.Sort == t.Sort {
				e.sol.Assert(Not(Eq(t, u)))
			}
		}
	}
	if e.sol.Check() != "sat" {
		return nil, false
	}
	return e.sol.GetValues(e.pathSyms), true
}

func (e *Exec) fresh(name string, sort int) Term {
	if !e.symSeen[name] {
		e.symSeen[name] = true
		e.symNames = append(e.symNames, name)
	}
	if e.sol.Declare(name, sort) {
		e.pathSyms = append(e.pathSyms, name)
	}
	return Term{S: name, Sort: sort}
}

// ---- calls ----

func (e *Exec) call(fn *ssa.Function, args []Value) Value {
	if b, ok := e.builtinStubs[fn.String()]; ok {
		return e.builtinStub(b, fn, args)
	}
	if st, ok := e.stubs[fn.String()]; ok {
		fn = st
	}
	if h, ok := intrinsicFor(fn); ok {
		return h(e, args)
	}
	if fn.Pkg != nil && noopPackages[fn.Pkg.Pkg.Path()] {
		// logging and formatting-only packages: empty bodies, zero results
		res := fn.Signature.Results()
		switch res.Len() {
		case 0:
			return nil
		case 1:
			return zero(res.At(0).Type())
		}
		t := VTuple{}
		for i := 0; i < res.Len(); i++ {
			t.E = append(t.E, zero(res.At(i).Type()))
		}
		return t
	}
	if isNoopCallee(fn.String()) {
		return nil
	}
	if fn.Name() == "init" && fn.Pkg != nil && fn.Synthetic != "" && e.depth > 0 {
		if !e.initPkgs[fn.Pkg.Pkg.Path()] {
			return nil // dependency init: not executed
		}
	}
	if e.lenient && fn.Blocks == nil {
		return VOpaque{"call " + fn.String()}
	}
	if e.lenient && e.callerIsInit() && !(fn.Name() == "init" || strings.HasPrefix(fn.Name(), "init#")) {
		// a direct callee of a package initialiser: failure makes the result opaque, not the whole init
		var out Value
		d0, s0 := e.depth, len(e.fnStack)
		func() {
			defer func() {
				if r := recover(); r != nil {
					if _, ok := r.(pathEnd); ok {
						panic(r)
					}
					out = VOpaque{fmt.Sprintf("init callee %s failed: %v", fn.String(), r)}
					e.depth = d0
					e.fnStack = e.fnStack[:s0]
				}
			}()
			out = e.callBody(fn, args)
		}()
		return out
	}
	return e.callBody(fn, args)
}

func (e *Exec) callBody(fn *ssa.Function, args []Value) Value {
	if fn.Blocks == nil {
		if fn.Synthetic != "" || true {
			e.fail("no body for %s", fn.String())
		}
	}
	if e.trace {
		fmt.Printf("%*scall %s\n", e.depth*2, "", fn.String())
	}
	e.depth++
	if e.depth > 200 {
		e.fail("call depth")
	}
	e.fnStack = append(e.fnStack, fn)
	defer func() { e.depth--; e.fnStack = e.fnStack[:len(e.fnStack)-1] }()
	fr := &frame{fn: fn, env: map[ssa.Value]Value{}}
	for i, p := range fn.Params {
		fr.env[p] = args[i]
	}
	return e.runFrame(fr, args)
}

func (e *Exec) runFrame(fr *frame, args []Value) Value {
	fn := fr.fn
	var prev *ssa.BasicBlock
	blk := fn.Blocks[0]
	for {
		// phis first (parallel)
		nphi := 0
		var phiVals []Value
		for _, in := range blk.Instrs {
			phi, ok := in.(*ssa.Phi)
			if !ok {
				break
			}
			nphi++
			idx := -1
			for i, p := range blk.Preds {
				if p == prev {
					idx = i
				}
			}
			phiVals = append(phiVals, e.val(fr, phi.Edges[idx]))
		}
		for i := 0; i < nphi; i++ {
			fr.env[blk.Instrs[i].(*ssa.Phi)] = phiVals[i]
		}
		e.executed[fn.String()] += len(blk.Instrs)
		var next *ssa.BasicBlock
		for _, in := range blk.Instrs[nphi:] {
			switch in := in.(type) {
			case *ssa.If:
				c := e.val(fr, in.Cond).(VBool).T
				if e.decide(c) {
					next = blk.Succs[0]
				} else {
					next = blk.Succs[1]
				}
			case *ssa.Jump:
				next = blk.Succs[0]
			case *ssa.Return:
				e.runDefers(fr)
				switch len(in.Results) {
				case 0:
					return nil
				case 1:
					return e.val(fr, in.Results[0])
				default:
					t := VTuple{}
					for _, r := range in.Results {
						t.E = append(t.E, e.val(fr, r))
					}
					return t
				}
			case *ssa.Panic:
				e.oblige(BoolC(false), "panic", "explicit panic in "+fn.String())
			case *ssa.RunDefers:
				e.runDefers(fr)
			case *ssa.Defer:
				cc := in.Call
				callee, cargs := e.prepCall(fr, &cc)
				fr.defers = append(fr.defers, func() { callee(cargs) })
			case *ssa.Store:
				e.storePtr(e.val(fr, in.Addr), e.val(fr, in.Val))
			case *ssa.Send:
				ch := e.val(fr, in.Chan).(VChan)
				for !e.chanSendReady(ch.C) {
					e.blockedStep("on send in " + fn.String())
				}
				e.progress++
				ch.C.Q = append(ch.C.Q, e.val(fr, in.X))
				if ch.C.Cap == 0 && e.curCoro != nil {
					// rendezvous: the sender goes on only once a receiver has taken the value
					for len(ch.C.Q) > 0 && !ch.C.Closed {
						e.blockedStep("on unbuffered send in " + fn.String())
					}
				}
				e.maybePreempt()
			case *ssa.Go:
				// sequential mode: record, do not run
			case *ssa.MapUpdate:
				e.mapUpdate(e.val(fr, in.Map), e.val(fr, in.Key), e.val(fr, in.Value))
			case *ssa.DebugRef:
			case ssa.Value:
				fr.env[in] = e.eval(fr, in)
			default:
				e.fail("instruction %T in %s", in, fn)
			}
			if next != nil {
				break
			}
		}
		if next == nil {
			e.fail("fell off block in %s", fn)
		}
		// loop bound on back-edges: iterations in which a symbolic branch was decided count
		// against the unwinding bound; purely concrete iterations only against a hard cap
		if next.Index <= blk.Index {
			k := fmt.Sprintf("%s#%d->%d", fn.String(), blk.Index, next.Index)
			if e.symDecisions != e.loopSeen[k] {
				e.loopSeen[k] = e.symDecisions
				e.loopCount[k]++
				if e.loopCount[k] > e.maxLoop {
					e.unwound = append(e.unwound, k)
					panic(pathEnd{"UNWIND " + k})
				}
			} else {
				e.concCount[k]++
				if e.concCount[k] > 200000 {
					e.unwound = append(e.unwound, "concrete loop cap "+k)
					panic(pathEnd{"UNWIND " + k})
				}
			}
		}
		prev, blk = blk, next
	}
}

func (e *Exec) runDefers(fr *frame) {
	for len(fr.defers) > 0 {
		d := fr.defers[len(fr.defers)-1]
		fr.defers = fr.defers[:len(fr.defers)-1]
		d()
	}
}

func (e *Exec) prepCall(fr *frame, c *ssa.CallCommon) (func([]Value) Value, []Value) {
	var args []Value
	if c.IsInvoke() {
		recv := e.val(fr, c.Value).(VIface)
		if recv.Typ == nil {
			e.oblige(BoolC(false), "panic", "nil interface method call "+c.Method.Name())
		}
		if recv.Typ == errType {
			ve := recv.Val.(VErr)
			switch c.Method.Name() {
			case "Error":
				return func(a []Value) Value { return VStr{"<" + ve.ID + ">"} }, nil
			case "Unwrap":
				return func(a []Value) Value {
					if len(ve.Causes) > 0 {
						return ve.Causes[0]
					}
					return VIface{}
				}, nil
			}
			e.fail("method %s on an opaque error", c.Method.Name())
		}
		ms := e.prog.MethodSets.MethodSet(recv.Typ)
		sel := ms.Lookup(c.Method.Pkg(), c.Method.Name())
		if sel == nil {
			e.fail("method %s not found on %v", c.Method.Name(), recv.Typ)
		}
		fn := e.prog.MethodValue(sel)
		args = append(args, recv.Val)
		for _, a := range c.Args {
			args = append(args, e.val(fr, a))
		}
		return func(a []Value) Value { return e.call(fn, a) }, args
	}
	for _, a := range c.Args {
		args = append(args, e.val(fr, a))
	}
	switch v := c.Value.(type) {
	case *ssa.Function:
		return func(a []Value) Value { return e.call(v, a) }, args
	case *ssa.Builtin:
		return func(a []Value) Value { return e.builtin(v, a, c) }, args
	default:
		f := e.val(fr, c.Value).(VFunc)
		if f.Fn == nil {
			e.oblige(BoolC(false), "panic", "nil func call")
		}
		return func(a []Value) Value { return e.callClosure(f, a) }, args
	}
}

func (e *Exec) callClosure(f VFunc, args []Value) Value {
	fn := f.Fn
	if h, ok := intrinsicFor(fn); ok {
		return h(e, args)
	}
	e.depth++
	defer func() { e.depth-- }()
	fr := &frame{fn: fn, env: map[ssa.Value]Value{}}
	for i, p := range fn.Params {
		fr.env[p] = args[i]
	}
	for i, fv := range fn.FreeVars {
		fr.env[fv] = f.Bindings[i]
	}
	return e.runFrame(fr, args)
}

// ---- operands ----

func (e *Exec) val(fr *frame, v ssa.Value) Value {
	switch v := v.(type) {
	case *ssa.Const:
		return e.constVal(v)
	case *ssa.Function:
		return VFunc{Fn: v}
	case *ssa.Global:
		return VPtr{e.global(v)}
	case *ssa.Builtin:
		e.fail("builtin as value")
	}
	r, ok := fr.env[v]
	if !ok {
		e.fail("no value for %s (%T) in %s", v.Name(), v, fr.fn)
	}
	return r
}

var globals = map[*ssa.Global]*Cell{}

var cellOwner = map[*Cell]*ssa.Global{}

func ownCells(c *Cell, g *ssa.Global) {
	cellOwner[c] = g
	for _, f := range c.Fields {
		ownCells(f, g)
	}
	for _, el := range c.Elems {
		ownCells(el, g)
	}
}

func (e *Exec) global(g *ssa.Global) *Cell {
	c, ok := globals[g]
	if !ok {
		if why, bad := e.poisoned[g]; bad && !e.lenient {
			e.fail("read of global %s whose initialiser did not run (%s)", g.String(), why)
		}
		if !e.lenient && g.Pkg != nil && !e.initPkgs[g.Pkg.Pkg.Path()] && e.hasInitStore(g) {
			e.fail("read of global %s but init of %s is not executed (add it to inits)", g.String(), g.Pkg.Pkg.Path())
		}
		c = newCell(g.Type().(*types.Pointer).Elem())
		globals[g] = c
		ownCells(c, g)
	}
	return c
}

var initStoreCache = map[*ssa.Package]map[*ssa.Global]bool{}

// hasInitStore reports whether the package initialiser of g's package stores to g.
func (e *Exec) hasInitStore(g *ssa.Global) bool {
	p := g.Pkg
	if p == nil {
		return false
	}
	m, ok := initStoreCache[p]
	if !ok {
		m = map[*ssa.Global]bool{}
		initStoreCache[p] = m
		seen := map[*ssa.Function]bool{}
		var walk func(f *ssa.Function)
		walk = func(f *ssa.Function) {
			if f == nil || seen[f] || f.Pkg != p {
				return
			}
			seen[f] = true
			for _, b := range f.Blocks {
				for _, in := range b.Instrs {
					switch in := in.(type) {
					case *ssa.Store:
						if gg := rootGlobal(in.Addr); gg != nil {
							m[gg] = true
						}
					case *ssa.MapUpdate:
					case *ssa.Call:
						if cf, ok := in.Call.Value.(*ssa.Function); ok && strings.HasPrefix(cf.Name(), "init") {
							walk(cf)
						}
					}
				}
			}
		}
		walk(p.Func("init"))
	}
	return m[g]
}

func rootGlobal(v ssa.Value) *ssa.Global {
	for {
		switch x := v.(type) {
		case *ssa.Global:
			return x
		case *ssa.FieldAddr:
			v = x.X
		case *ssa.IndexAddr:
			v = x.X
		default:
			return nil
		}
	}
}

func (e *Exec) constVal(c *ssa.Const) Value {
	t := c.Type()
	if c.Value == nil {
		return zero(t)
	}
	switch u := t.Underlying().(type) {
	case *types.Basic:
		switch {
		case u.Info()&types.IsInteger != 0:
			w, _ := intWidth(u)
			bi, _ := new(big.Int).SetString(constant.ToInt(c.Value).ExactString(), 10)
			if intMode {
				return VInt{IntC(bi)}
			}
			return VInt{BV(w, bi)}
		case u.Info()&types.IsBoolean != 0:
			return VBool{BoolC(constant.BoolVal(c.Value))}
		case u.Info()&types.IsString != 0:
			return VStr{constant.StringVal(c.Value)}
		case u.Info()&types.IsFloat != 0 && e.fpPrecise:
			fv := constant.ToFloat(c.Value)
			num, _ := new(big.Int).SetString(constant.Num(fv).ExactString(), 10)
			den, _ := new(big.Int).SetString(constant.Denom(fv).ExactString(), 10)
			if num != nil && den != nil && den.Sign() != 0 {
				return VFloat{fpConst(new(big.Rat).SetFrac(num, den))}
			}
		}
	}
	return VOpaque{"const " + c.String()}
}

// ---- evaluation of value instructions ----

func (e *Exec) eval(fr *frame, in ssa.Value) Value {
	switch in := in.(type) {
	case *ssa.Alloc:
		return VPtr{newCell(in.Type().(*types.Pointer).Elem())}
	case *ssa.UnOp:
		return e.unop(fr, in)
	case *ssa.BinOp:
		return e.binop(in.Op, e.val(fr, in.X), e.val(fr, in.Y), in.X.Type())
	case *ssa.Call:
		callee, args := e.prepCall(fr, &in.Call)
		return callee(args)
	case *ssa.Convert:
		return e.convert(e.val(fr, in.X), in.X.Type(), in.Type())
	case *ssa.ChangeType:
		return e.val(fr, in.X)
	case *ssa.ChangeInterface:
		return e.val(fr, in.X)
	case *ssa.MakeInterface:
		return VIface{in.X.Type(), e.val(fr, in.X)}
	case *ssa.TypeAssert:
		return e.typeAssert(fr, in)
	case *ssa.Extract:
		return e.val(fr, in.Tuple).(VTuple).E[in.Index]
	case *ssa.FieldAddr:
		p := e.val(fr, in.X).(VPtr)
		if p.C == nil {
			e.oblige(BoolC(false), "panic", "nil pointer dereference (field) in "+fr.fn.String())
		}
		return VPtr{p.C.Fields[in.Field]}
	case *ssa.Field:
		return e.val(fr, in.X).(VStruct).F[in.Field]
	case *ssa.IndexAddr:
		return e.indexAddr(fr, in)
	case *ssa.Index:
		x := e.val(fr, in.X)
		idx := e.val(fr, in.Index).(VInt).T
		switch x := x.(type) {
		case VArray:
			if idx.Const {
				return x.E[idx.U.Int64()]
			}
			return e.selectVals(x.E, idx)
		case VStr:
			if idx.Const {
				return VInt{byteC(uint64(x.S[idx.U.Int64()]))}
			}
		}
		e.fail("Index on %T", x)
	case *ssa.Slice:
		return e.slice(fr, in)
	case *ssa.MakeSlice:
		l := e.val(fr, in.Len).(VInt).T
		c := e.val(fr, in.Cap).(VInt).T
		if !intMode {
			l = Resize(l, 64, isSigned(in.Len.Type()))
			c = Resize(c, 64, isSigned(in.Cap.Type()))
		}
		if !l.Const || !c.Const {
			// allocation size depends on input: it must stay within the harness's bound
			// (memory proportional to the input, not to a length claimed inside it); a
			// symbolic size is then made concrete by forking over 0..bound
			same := in.Len == in.Cap
			fix := func(t Term) Term {
				if t.Const {
					return t
				}
				big := tLe(i64(1<<20), t)
				e.prefer = &big
				e.oblige(And(tLe(i64(0), t), tLe(t, i64(e.makeSliceMax))), "panic", "allocation size bounded by the input size in "+fr.fn.String())
				e.prefer = nil
				for k := 0; k <= e.makeSliceMax; k++ {
					if e.decide(Eq(t, idxC(t, k))) {
						return idxC(t, k)
					}
				}
				e.unwound = append(e.unwound, fmt.Sprintf("MakeSlice size > %d in %s", e.makeSliceMax, fr.fn.String()))
				panic(pathEnd{"BOUND MakeSlice"})
			}
			l = fix(l)
			if same {
				c = l
			} else {
				c = fix(c)
			}
		}
		n := int(c.U.Int64())
		arr := newCell(types.NewArray(in.Type().Underlying().(*types.Slice).Elem(), int64(n)))
		return VSlice{arr, 0, int(l.U.Int64()), n}
	case *ssa.MakeClosure:
		f := VFunc{Fn: in.Fn.(*ssa.Function)}
		for _, b := range in.Bindings {
			f.Bindings = append(f.Bindings, e.val(fr, b))
		}
		return f
	case *ssa.MakeMap:
		return VMap{&MapObj{}}
	case *ssa.Lookup:
		return e.lookup(fr, in)
	case *ssa.SliceToArrayPointer:
		s := e.val(fr, in.X).(VSlice)
		n := int(in.Type().(*types.Pointer).Elem().Underlying().(*types.Array).Len())
		if s.Len < n {
			e.oblige(BoolC(false), "panic", "slice to array pointer: short slice")
		}
		// view cell over the same element cells
		view := &Cell{Typ: in.Type().(*types.Pointer).Elem(), Elems: s.Arr.Elems[s.Off : s.Off+n]}
		return VPtr{view}
	case *ssa.MakeChan:
		sz := e.val(fr, in.Size).(VInt).T
		if !sz.Const {
			e.fail("symbolic chan size")
		}
		return VChan{&ChanObj{Cap: int(sz.U.Int64()), Elem: in.Type().Underlying().(*types.Chan).Elem()}}
	case *ssa.Select:
		return e.doSelect(fr, in)
	case *ssa.Range:
		return e.rangeStart(e.val(fr, in.X))
	case *ssa.Next:
		return e.rangeNext(fr, in)
	}
	e.fail("value instruction %T in %s", in, fr.fn)
	return nil
}

func (e *Exec) loadPtr(p Value) Value {
	switch p := p.(type) {
	case VPtr:
		if p.C == nil {
			e.oblige(BoolC(false), "panic", "nil pointer dereference")
		}
		return load(p.C)
	case VElemPtr:
		vals := make([]Value, p.Len)
		for i := 0; i < p.Len; i++ {
			vals[i] = load(p.Arr.Elems[p.Off+i])
		}
		return e.selectVals(vals, p.Idx)
	}
	e.fail("load through %T", p)
	return nil
}

func (e *Exec) selectVals(vals []Value, idx Term) Value {
	if len(vals) == 0 {
		e.fail("select from empty")
	}
	res := vals[len(vals)-1]
	for i := len(vals) - 2; i >= 0; i-- {
		c := Eq(idx, idxC(idx, i))
		switch a := vals[i].(type) {
		case VInt:
			res = VInt{Ite(c, a.T, res.(VInt).T)}
		case VBool:
			res = VBool{Ite(c, a.T, res.(VBool).T)}
		default:
			e.fail("symbolic index over %T elements", a)
		}
	}
	return res
}

func (e *Exec) storePtr(p Value, v Value) {
	switch p := p.(type) {
	case VPtr:
		if p.C == nil {
			e.oblige(BoolC(false), "panic", "nil pointer store")
		}
		if e.lenient {
			if g := cellOwner[p.C]; g != nil {
				e.initDone[g] = true
			}
		}
		store(p.C, v)
	case VElemPtr:
		for i := 0; i < p.Len; i++ {
			c := Eq(p.Idx, idxC(p.Idx, i))
			cell := p.Arr.Elems[p.Off+i]
			old := load(cell)
			switch nv := v.(type) {
			case VInt:
				store(cell, VInt{Ite(c, nv.T, old.(VInt).T)})
			case VBool:
				store(cell, VBool{Ite(c, nv.T, old.(VBool).T)})
			default:
				e.fail("symbolic index store of %T", v)
			}
		}
	default:
		e.fail("store through %T", p)
	}
}

func (e *Exec) unop(fr *frame, in *ssa.UnOp) Value {
	x := e.val(fr, in.X)
	switch in.Op {
	case token.MUL:
		return e.loadPtr(x)
	case token.ARROW:
		ch := x.(VChan)
		if me := e.curCoro; me != nil && ch.C != nil {
			// among cooperative goroutines a value goes to the longest-waiting receiver
			mine := func() bool { return len(ch.C.Waiters) == 0 || ch.C.Waiters[0] == me }
			for !(e.chanRecvReady(ch.C) && mine()) {
				queued := false
				for _, w := range ch.C.Waiters {
					queued = queued || w == me
				}
				if !queued {
					ch.C.Waiters = append(ch.C.Waiters, me)
				}
				e.blockedStep("on receive in " + fr.fn.String())
			}
			if len(ch.C.Waiters) > 0 && ch.C.Waiters[0] == me {
				ch.C.Waiters = ch.C.Waiters[1:]
			}
		}
		for !e.chanRecvReady(ch.C) {
			e.blockedStep("on receive in " + fr.fn.String())
		}
		e.progress++
		v, ok := e.chanRecv(ch.C)
		if in.CommaOk {
			return VTuple{[]Value{v, VBool{BoolC(ok)}}}
		}
		return v
	case token.NOT:
		return VBool{Not(x.(VBool).T)}
	case token.SUB:
		if isFloat(in.X.Type()) {
			if e.fpPrecise {
				return VFloat{app(SFP, "fp.neg", e.fterm(x))}
			}
			return floatTok
		}
		t := x.(VInt).T
		if intMode {
			w, sg := typeWS(in.X.Type())
			return VInt{imWrapAdd(IntBin("-", IntC(bigZero()), t), w, sg)}
		}
		return VInt{BVBin("-", BVu(t.Sort, 0), t, true)}
	case token.XOR:
		t := x.(VInt).T
		return VInt{BVBin("^", t, BV(t.Sort, mask(t.Sort)), false)}
	}
	e.fail("unop %v", in.Op)
	return nil
}

func isSigned(t types.Type) bool {
	if b, ok := t.Underlying().(*types.Basic); ok {
		_, s := intWidth(b)
		return s
	}
	return false
}

func isFloat(t types.Type) bool {
	b, ok := t.Underlying().(*types.Basic)
	return ok && b.Info()&types.IsFloat != 0
}

// floats are abstracted: every floating-point result is an opaque token, every comparison of
// floats and every float-to-integer conversion a fresh nondeterministic value. What is decided
// about code that computes through float64 therefore holds for any floating-point behaviour.
var floatTok = VOpaque{"float"}

// fterm: the binary64 term of a float value (fp_precise mode)
func (e *Exec) fterm(v Value) Term {
	switch x := v.(type) {
	case VFloat:
		return x.T
	case VOpaque:
		if strings.HasPrefix(x.Why, "zero of") {
			return Term{S: "(_ +zero 11 53)", Sort: SFP}
		}
		// an abstract float that reached precise code (e.g. from an @float stub): any value
		e.nondet++
		return e.fresh(sprintf("fany_%d", e.nondet), SFP)
	}
	e.fail("float term of %T", v)
	return Term{}
}

func fpConst(r *big.Rat) Term {
	neg := r.Sign() < 0
	a := new(big.Rat).Abs(r)
	lit := sprintf("((_ to_fp 11 53) RNE (/ %s.0 %s.0))", a.Num().String(), a.Denom().String())
	if neg {
		lit = "(fp.neg " + lit + ")"
	}
	return Term{S: lit, Sort: SFP}
}

func (e *Exec) binop(op token.Token, x, y Value, xt types.Type) Value {
	if isFloat(xt) && e.fpPrecise {
		a, b := e.fterm(x), e.fterm(y)
		switch op {
		case token.EQL:
			return VBool{app(SBool, "fp.eq", a, b)}
		case token.NEQ:
			return VBool{Not(app(SBool, "fp.eq", a, b))}
		case token.LSS:
			return VBool{app(SBool, "fp.lt", a, b)}
		case token.LEQ:
			return VBool{app(SBool, "fp.leq", a, b)}
		case token.GTR:
			return VBool{app(SBool, "fp.gt", a, b)}
		case token.GEQ:
			return VBool{app(SBool, "fp.geq", a, b)}
		case token.ADD:
			return VFloat{app(SFP, "fp.add RNE", a, b)}
		case token.SUB:
			return VFloat{app(SFP, "fp.sub RNE", a, b)}
		case token.MUL:
			return VFloat{app(SFP, "fp.mul RNE", a, b)}
		case token.QUO:
			return VFloat{app(SFP, "fp.div RNE", a, b)}
		}
		e.fail("float operation %v", op)
	}
	if isFloat(xt) {
		switch op {
		case token.EQL, token.NEQ, token.LSS, token.LEQ, token.GTR, token.GEQ:
			e.nondet++
			return VBool{e.fresh(sprintf("fcmp_%d", e.nondet), SBool)}
		}
		return floatTok
	}
	switch a := x.(type) {
	case VInt:
		b := y.(VInt)
		if intMode {
			return e.imBinop(op, a.T, b.T, xt)
		}
		signed := isSigned(xt)
		switch op {
		case token.SHL:
			return VInt{BVShift("<<", a.T, b.T, signed)}
		case token.SHR:
			return VInt{BVShift(">>", a.T, b.T, signed)}
		case token.QUO, token.REM:
			e.oblige(Not(Eq(b.T, BVu(b.T.Sort, 0))), "panic", "integer divide by zero")
		}
		r := BVBin(op.String(), a.T, b.T, signed)
		if r.Sort == SBool {
			return VBool{r}
		}
		return VInt{r}
	case VBool:
		b := y.(VBool)
		switch op {
		case token.EQL:
			return VBool{Eq(a.T, b.T)}
		case token.NEQ:
			return VBool{Not(Eq(a.T, b.T))}
		case token.AND, token.LAND:
			return VBool{And(a.T, b.T)}
		case token.OR, token.LOR:
			return VBool{Or(a.T, b.T)}
		}
	case VSymStr:
		switch op {
		case token.EQL:
			return VBool{e.deepEq(a, y)}
		case token.NEQ:
			return VBool{Not(e.deepEq(a, y))}
		}
	case VStr:
		if _, ok := y.(VSymStr); ok {
			switch op {
			case token.EQL:
				return VBool{e.deepEq(y, a)}
			case token.NEQ:
				return VBool{Not(e.deepEq(y, a))}
			}
		}
		b := y.(VStr)
		switch op {
		case token.EQL:
			return VBool{BoolC(a.S == b.S)}
		case token.NEQ:
			return VBool{BoolC(a.S != b.S)}
		case token.ADD:
			return VStr{a.S + b.S}
		case token.LSS:
			return VBool{BoolC(a.S < b.S)}
		}
	case VPtr:
		b := y.(VPtr)
		eq := a.C == b.C
		if op == token.EQL {
			return VBool{BoolC(eq)}
		}
		return VBool{BoolC(!eq)}
	case VIface:
		b := y.(VIface)
		eq := e.ifaceEq(a, b)
		if op == token.NEQ {
			eq = Not(eq)
		}
		return VBool{eq}
	case VSlice:
		if _, ok := y.(VSymSlice); ok {
			return VBool{BoolC(op == token.NEQ)}
		}
		b := y.(VSlice)
		eq := a.Arr == nil && b.Arr == nil
		if op == token.EQL {
			return VBool{BoolC(eq)}
		}
		return VBool{BoolC(!eq)}
	case VFunc:
		b := y.(VFunc)
		eq := a.Fn == nil && b.Fn == nil
		if op == token.EQL {
			return VBool{BoolC(eq)}
		}
		return VBool{BoolC(!eq)}
	case VSymSlice:
		return VBool{BoolC(op == token.NEQ)}
	case VChan:
		b := y.(VChan)
		if op == token.EQL {
			return VBool{BoolC(a.C == b.C)}
		}
		return VBool{BoolC(a.C != b.C)}
	case VMap:
		b := y.(VMap)
		eq := a.M == nil && b.M == nil
		if op == token.EQL {
			return VBool{BoolC(eq)}
		}
		return VBool{BoolC(!eq)}
	case VStruct, VArray:
		eq := e.deepEq(x, y)
		if op == token.NEQ {
			eq = Not(eq)
		}
		return VBool{eq}
	}
	e.fail("binop %v on %T", op, x)
	return nil
}

func (e *Exec) deepEq(x, y Value) Term {
	switch a := x.(type) {
	case VInt:
		return Eq(a.T, y.(VInt).T)
	case VBool:
		return Eq(a.T, y.(VBool).T)
	case VStr:
		if b, ok := y.(VSymStr); ok {
			return e.deepEq(b, a)
		}
		return BoolC(a.S == y.(VStr).S)
	case VSymStr:
		var other []Value
		switch b := y.(type) {
		case VSymStr:
			other = b.E
		case VStr:
			for i := 0; i < len(b.S); i++ {
				other = append(other, VInt{byteC(uint64(b.S[i]))})
			}
		}
		if len(other) != len(a.E) {
			return BoolC(false)
		}
		r := BoolC(true)
		for i := range a.E {
			r = And(r, e.deepEq(a.E[i], other[i]))
		}
		return r
	case VPtr:
		return BoolC(a.C == y.(VPtr).C)
	case VStruct:
		r := BoolC(true)
		for i := range a.F {
			r = And(r, e.deepEq(a.F[i], y.(VStruct).F[i]))
		}
		return r
	case VArray:
		r := BoolC(true)
		for i := range a.E {
			r = And(r, e.deepEq(a.E[i], y.(VArray).E[i]))
		}
		return r
	case VIface:
		return e.ifaceEq(a, y.(VIface))
	case VErr:
		return BoolC(a.ID == y.(VErr).ID)
	}
	e.fail("deepEq %T", x)
	return Term{}
}

func (e *Exec) ifaceEq(a, b VIface) Term {
	if a.Typ == nil || b.Typ == nil {
		return BoolC(a.Typ == nil && b.Typ == nil)
	}
	if !types.Identical(a.Typ, b.Typ) {
		return BoolC(false)
	}
	return e.deepEq(a.Val, b.Val)
}

func (e *Exec) convert(x Value, from, to types.Type) Value {
	if e.fpPrecise && (isFloat(to) || isFloat(from)) {
		if isFloat(to) && isFloat(from) {
			return VFloat{e.fterm(x)}
		}
		if isFloat(to) {
			t := x.(VInt).T
			if intMode {
				return VFloat{app(SFP, "(_ to_fp 11 53) RNE", app(SReal, "to_real", t))}
			}
			if isSigned(from) {
				return VFloat{app(SFP, "(_ to_fp 11 53) RNE", t)}
			}
			return VFloat{app(SFP, "(_ to_fp_unsigned 11 53) RNE", t)}
		}
		tb := to.Underlying().(*types.Basic)
		w, sg := intWidth(tb)
		f := e.fterm(x)
		if sg {
			bv := app(w, sprintf("(_ fp.to_sbv %d) RTZ", w), f)
			if intMode {
				u := app(SInt, "bv2nat", bv)
				return VInt{Ite(IntCmp("<", u, IntC(pow2(w-1))), u, IntBin("-", u, IntC(pow2(w))))}
			}
			return VInt{bv}
		}
		bv := app(w, sprintf("(_ fp.to_ubv %d) RTZ", w), f)
		if intMode {
			return VInt{app(SInt, "bv2nat", bv)}
		}
		return VInt{bv}
	}
	if isFloat(to) {
		return floatTok
	}
	if isFloat(from) {
		if tb, ok := to.Underlying().(*types.Basic); ok && tb.Info()&types.IsInteger != 0 {
			e.nondet++
			w, sg := intWidth(tb)
			if intMode {
				return VInt{e.imFresh(sprintf("f2i_%d", e.nondet), w, sg)}
			}
			return VInt{e.fresh(sprintf("f2i_%d", e.nondet), w)}
		}
	}
	switch a := x.(type) {
	case VInt:
		if tb, ok := to.Underlying().(*types.Basic); ok {
			if tb.Info()&types.IsInteger != 0 {
				if intMode {
					return VInt{e.imConvert(a.T, from, to)}
				}
				w, _ := intWidth(tb)
				return VInt{Resize(a.T, w, isSigned(from))}
			}
			if tb.Info()&types.IsString != 0 && a.T.Const {
				return VStr{string(rune(a.T.U.Int64()))}
			}
		}
	case VStr:
		if _, ok := to.Underlying().(*types.Slice); ok {
			n := len(a.S)
			arr := newCell(types.NewArray(types.Typ[types.Uint8], int64(n)))
			for i := 0; i < n; i++ {
				arr.Elems[i].V = VInt{byteC(uint64(a.S[i]))}
			}
			return VSlice{arr, 0, n, n}
		}
		return a
	case VSlice:
		if tb, ok := to.Underlying().(*types.Basic); ok && tb.Info()&types.IsString != 0 {
			bs := make([]byte, a.Len)
			for i := 0; i < a.Len; i++ {
				t := load(a.Arr.Elems[a.Off+i]).(VInt).T
				if !t.Const {
					// not all bytes are concrete: a symbolic string (map key / comparison only)
					el := make([]Value, a.Len)
					for j := 0; j < a.Len; j++ {
						el[j] = load(a.Arr.Elems[a.Off+j])
					}
					return VSymStr{el}
				}
				bs[i] = byte(t.U.Uint64())
			}
			return VStr{string(bs)}
		}
		return a
	case VSymSlice:
		return a
	case VSymStr:
		if _, ok := to.Underlying().(*types.Slice); ok {
			n := len(a.E)
			arr := newCell(types.NewArray(types.Typ[types.Uint8], int64(n)))
			for i := 0; i < n; i++ {
				arr.Elems[i].V = a.E[i]
			}
			return VSlice{arr, 0, n, n}
		}
		return a
	case VPtr:
		return a
	}
	e.fail("convert %T from %v to %v", x, from, to)
	return nil
}

func (e *Exec) typeAssert(fr *frame, in *ssa.TypeAssert) Value {
	x := e.val(fr, in.X).(VIface)
	ok := false
	var res Value
	if x.Typ != nil {
		if types.IsInterface(in.AssertedType) {
			ok = types.Implements(x.Typ, in.AssertedType.Underlying().(*types.Interface))
			res = x
		} else {
			ok = types.Identical(x.Typ, in.AssertedType)
			res = x.Val
		}
	}
	if in.CommaOk {
		if !ok {
			res = zero(in.AssertedType)
		}
		return VTuple{[]Value{res, VBool{BoolC(ok)}}}
	}
	if !ok {
		e.oblige(BoolC(false), "panic", fmt.Sprintf("type assertion to %v failed in %s", in.AssertedType, fr.fn))
	}
	return res
}

func (e *Exec) indexAddr(fr *frame, in *ssa.IndexAddr) Value {
	x := e.val(fr, in.X)
	idx := e.val(fr, in.Index).(VInt).T
	if !intMode {
		idx = Resize(idx, 64, isSigned(in.Index.Type()))
	}
	var arr *Cell
	off, n := 0, 0
	switch x := x.(type) {
	case VSlice:
		arr, off, n = x.Arr, x.Off, x.Len
	case VSymSlice:
		e.oblige(And(tLe(i64(0), idx), tLt(idx, x.Len)), "panic", "index out of range in "+fr.fn.String())
		abs := tAdd(x.Off, idx)
		if abs.Const {
			return VPtr{x.Arr.Elems[abs.U.Int64()]}
		}
		return VElemPtr{x.Arr, 0, len(x.Arr.Elems), abs}
	case VPtr:
		if x.C == nil {
			e.oblige(BoolC(false), "panic", "nil array pointer")
		}
		arr, n = x.C, len(x.C.Elems)
	default:
		e.fail("IndexAddr on %T", x)
	}
	var inb Term
	if intMode {
		inb = And(IntCmp(">=", idx, IntC(bigZero())), IntCmp("<", idx, IntC(big.NewInt(int64(n)))))
	} else {
		inb = And(BVBin(">=", idx, BVu(64, 0), true), BVBin("<", idx, BVu(64, uint64(n)), true))
	}
	e.oblige(inb, "panic", "index out of range in "+fr.fn.String())
	if idx.Const {
		return VPtr{arr.Elems[off+int(idx.U.Int64())]}
	}
	return VElemPtr{arr, off, n, idx}
}

func (e *Exec) slice(fr *frame, in *ssa.Slice) Value {
	x := e.val(fr, in.X)
	if r, ok := e.symSlice(fr, in, x); ok {
		return r
	}
	get := func(v ssa.Value, def int) int {
		if v == nil {
			return def
		}
		t := e.val(fr, v).(VInt).T
		if !t.Const {
			e.fail("symbolic slice bound in %s", fr.fn)
		}
		if t.Sort == SInt {
			return int(t.U.Int64())
		}
		return int(signedVal(t.Sort, t.U).Int64())
	}
	switch x := x.(type) {
	case VSlice:
		lo, hi := get(in.Low, 0), get(in.High, x.Len)
		mx := get(in.Max, x.Cap)
		if lo < 0 || hi < lo || hi > mx || mx > x.Cap {
			e.oblige(BoolC(false), "panic", "slice bounds out of range in "+fr.fn.String())
		}
		if x.Arr == nil {
			return VSlice{}
		}
		return VSlice{x.Arr, x.Off + lo, hi - lo, mx - lo}
	case VPtr: // pointer to array
		n := len(x.C.Elems)
		lo, hi := get(in.Low, 0), get(in.High, n)
		mx := get(in.Max, n)
		if lo < 0 || hi < lo || hi > mx || mx > n {
			e.oblige(BoolC(false), "panic", "slice bounds out of range in "+fr.fn.String())
		}
		return VSlice{x.C, lo, hi - lo, mx - lo}
	case VStr:
		lo, hi := get(in.Low, 0), get(in.High, len(x.S))
		return VStr{x.S[lo:hi]}
	}
	e.fail("Slice on %T", x)
	return nil
}

func (e *Exec) builtin(b *ssa.Builtin, args []Value, c *ssa.CallCommon) Value {
	switch b.Name() {
	case "len":
		switch a := args[0].(type) {
		case VSlice:
			return VInt{lenC(a.Len)}
		case VStr:
			return VInt{lenC(len(a.S))}
		case VSymStr:
			return VInt{lenC(len(a.E))}
		case VArray:
			return VInt{lenC(len(a.E))}
		case VSymSlice:
			return VInt{a.Len}
		case VChan:
			if a.C == nil {
				return VInt{lenC(0)}
			}
			return VInt{lenC(len(a.C.Q))}
		case VMap:
			if a.M == nil {
				return VInt{lenC(0)}
			}
			return VInt{lenC(len(a.M.Keys))}
		}
	case "cap":
		if ch, ok := args[0].(VChan); ok {
			if ch.C == nil {
				return VInt{lenC(0)}
			}
			return VInt{lenC(ch.C.Cap)}
		}
		return VInt{lenC(args[0].(VSlice).Cap)}
	case "clear":
		switch a := args[0].(type) {
		case VSlice:
			for i := 0; i < a.Len; i++ {
				c := a.Arr.Elems[a.Off+i]
				store(c, zero(c.Typ))
			}
		case VMap:
			if a.M != nil {
				a.M.Keys, a.M.Vals = nil, nil
			}
		}
		return nil
	case "copy":
		dst := args[0].(VSlice)
		n := dst.Len
		switch src := args[1].(type) {
		case VSlice:
			if src.Len < n {
				n = src.Len
			}
			tmp := make([]Value, n)
			for i := 0; i < n; i++ {
				tmp[i] = load(src.Arr.Elems[src.Off+i])
			}
			for i := 0; i < n; i++ {
				store(dst.Arr.Elems[dst.Off+i], tmp[i])
			}
		case VStr:
			if len(src.S) < n {
				n = len(src.S)
			}
			for i := 0; i < n; i++ {
				store(dst.Arr.Elems[dst.Off+i], VInt{byteC(uint64(src.S[i]))})
			}
		}
		return VInt{lenC(n)}
	case "append":
		dst := args[0].(VSlice)
		var add []Value
		switch src := args[1].(type) {
		case VSlice:
			for i := 0; i < src.Len; i++ {
				add = append(add, load(src.Arr.Elems[src.Off+i]))
			}
		case VStr:
			for i := 0; i < len(src.S); i++ {
				add = append(add, VInt{byteC(uint64(src.S[i]))})
			}
		}
		if len(add) == 0 {
			return dst
		}
		elemT := c.Args[0].Type().Underlying().(*types.Slice).Elem()
		if dst.Arr != nil && dst.Len+len(add) <= dst.Cap {
			for i, v := range add {
				store(dst.Arr.Elems[dst.Off+dst.Len+i], v)
			}
			return VSlice{dst.Arr, dst.Off, dst.Len + len(add), dst.Cap}
		}
		n := dst.Len + len(add)
		arr := newCell(types.NewArray(elemT, int64(n)))
		for i := 0; i < dst.Len; i++ {
			store(arr.Elems[i], load(dst.Arr.Elems[dst.Off+i]))
		}
		for i, v := range add {
			store(arr.Elems[dst.Len+i], v)
		}
		return VSlice{arr, 0, n, n}
	case "min", "max":
		signed := isSigned(c.Args[0].Type())
		r := args[0].(VInt).T
		for _, a := range args[1:] {
			t := a.(VInt).T
			var c Term
			switch {
			case intMode && b.Name() == "min":
				c = IntCmp("<", t, r)
			case intMode:
				c = IntCmp(">", t, r)
			case b.Name() == "min":
				c = BVBin("<", t, r, signed)
			default:
				c = BVBin(">", t, r, signed)
			}
			r = Ite(c, t, r)
		}
		return VInt{r}
	case "close":
		args[0].(VChan).C.Closed = true
		return nil
	case "ssa:wrapnilchk":
		if p, ok := args[0].(VPtr); ok && p.C == nil {
			e.oblige(BoolC(false), "panic", "value method called via nil pointer")
		}
		return args[0]
	case "delete":
		e.mapDelete(args[0], args[1])
		return nil
	}
	if b.Name() == "recover" {
		// Go panics end the path (obligations); a deferred recover() on a path that did not
		// panic sees nil
		return zero(types.NewInterfaceType(nil, nil))
	}
	if len(args) == 0 {
		e.fail("builtin %s", b.Name())
	}
	e.fail("builtin %s on %T", b.Name(), args[0])
	return nil
}

// ---- byte slices with symbolic offset/length over a concrete-capacity array ----

type VSymSlice struct {
	Arr      *Cell
	Off, Len Term // 64-bit BV (bv mode) or Int (int mode)
}

func i64(v int) Term { return lenC(v) }

func tAdd(a, b Term) Term {
	if intMode {
		return IntBin("+", a, b)
	}
	return BVBin("+", a, b, true)
}
func tSub(a, b Term) Term {
	if intMode {
		return IntBin("-", a, b)
	}
	return BVBin("-", a, b, true)
}
func tLe(a, b Term) Term {
	if intMode {
		return IntCmp("<=", a, b)
	}
	return BVBin("<=", a, b, true)
}
func tLt(a, b Term) Term {
	if intMode {
		return IntCmp("<", a, b)
	}
	return BVBin("<", a, b, true)
}

func (e *Exec) toSym(x Value) (VSymSlice, bool) {
	switch x := x.(type) {
	case VSymSlice:
		return x, true
	case VSlice:
		if x.Arr == nil {
			return VSymSlice{}, false
		}
		return VSymSlice{x.Arr, i64(x.Off), i64(x.Len)}, true
	}
	return VSymSlice{}, false
}

func normSlice(s VSymSlice) Value {
	if s.Off.Const && s.Len.Const {
		o, l := int(s.Off.U.Int64()), int(s.Len.U.Int64())
		return VSlice{s.Arr, o, l, len(s.Arr.Elems) - o}
	}
	return s
}

func (e *Exec) symSlice(fr *frame, in *ssa.Slice, x Value) (Value, bool) {
	symb := false
	if _, ok := x.(VSymSlice); ok {
		symb = true
	}
	term := func(v ssa.Value) (Term, bool) {
		if v == nil {
			return Term{}, false
		}
		t := e.val(fr, v).(VInt).T
		if !intMode {
			t = Resize(t, 64, isSigned(v.Type()))
		}
		if !t.Const {
			symb = true
		}
		return t, true
	}
	lo, hasLo := term(in.Low)
	hi, hasHi := term(in.High)
	if !symb {
		return nil, false
	}
	if in.Max != nil {
		e.fail("3-index slice with symbolic bounds")
	}
	ss, ok := e.toSym(x)
	if !ok {
		e.fail("symbolic slicing of %T", x)
	}
	if !hasLo {
		lo = i64(0)
	}
	if !hasHi {
		hi = ss.Len
	}
	// conservative: treat cap as len for symbolic slices
	okb := And(And(tLe(i64(0), lo), tLe(lo, hi)), tLe(hi, ss.Len))
	e.oblige(okb, "panic", "slice bounds out of range in "+fr.fn.String())
	return normSlice(VSymSlice{ss.Arr, tAdd(ss.Off, lo), tSub(hi, lo)}), true
}

// globals written by package init are snapshotted after init and restored (deep copy, so a
// path cannot leak mutations of init-built tables into the next path) before every path
var globalSnap = map[*ssa.Global]Value{}

func (e *Exec) snapshotGlobals() {
	for g, c := range globals {
		globalSnap[g] = load(c)
	}
}
func (e *Exec) restoreGlobals() {
	memo := &copyMemo{cells: map[*Cell]*Cell{}, maps: map[*MapObj]*MapObj{}, chans: map[*ChanObj]*ChanObj{}}
	for g, v := range globalSnap {
		c := newCell(g.Type().(*types.Pointer).Elem())
		store(c, memo.value(v))
		globals[g] = c
		ownCells(c, g)
	}
}

type copyMemo struct {
	cells map[*Cell]*Cell
	maps  map[*MapObj]*MapObj
	chans map[*ChanObj]*ChanObj
}

func (m *copyMemo) cell(c *Cell) *Cell {
	if c == nil {
		return nil
	}
	if n, ok := m.cells[c]; ok {
		return n
	}
	n := &Cell{Typ: c.Typ}
	m.cells[c] = n
	if c.Fields != nil {
		n.Fields = make([]*Cell, len(c.Fields))
		for i, f := range c.Fields {
			n.Fields[i] = m.cell(f)
		}
	}
	if c.Elems != nil {
		n.Elems = make([]*Cell, len(c.Elems))
		for i, f := range c.Elems {
			n.Elems[i] = m.cell(f)
		}
	}
	if c.V != nil {
		n.V = m.value(c.V)
	}
	return n
}

func (m *copyMemo) value(v Value) Value {
	switch x := v.(type) {
	case VPtr:
		return VPtr{m.cell(x.C)}
	case VSlice:
		return VSlice{m.cell(x.Arr), x.Off, x.Len, x.Cap}
	case VStruct:
		f := make([]Value, len(x.F))
		for i := range f {
			f[i] = m.value(x.F[i])
		}
		return VStruct{f}
	case VArray:
		f := make([]Value, len(x.E))
		for i := range f {
			f[i] = m.value(x.E[i])
		}
		return VArray{f}
	case VIface:
		if x.Typ == nil {
			return x
		}
		return VIface{x.Typ, m.value(x.Val)}
	case VFunc:
		if len(x.Bindings) == 0 {
			return x
		}
		b := make([]Value, len(x.Bindings))
		for i := range b {
			b[i] = m.value(x.Bindings[i])
		}
		return VFunc{x.Fn, b}
	case VMap:
		if x.M == nil {
			return x
		}
		if n, ok := m.maps[x.M]; ok {
			return VMap{n}
		}
		n := &MapObj{}
		m.maps[x.M] = n
		for i := range x.M.Keys {
			n.Keys = append(n.Keys, m.value(x.M.Keys[i]))
			n.Vals = append(n.Vals, m.cell(x.M.Vals[i]))
		}
		return VMap{n}
	case VChan:
		if x.C == nil {
			return x
		}
		if n, ok := m.chans[x.C]; ok {
			return VChan{n}
		}
		n := &ChanObj{Cap: x.C.Cap, Closed: x.C.Closed, Elem: x.C.Elem}
		m.chans[x.C] = n
		for _, q := range x.C.Q {
			n.Q = append(n.Q, m.value(q))
		}
		return VChan{n}
	}
	return v
}

func resetWorld() {
	globals = map[*ssa.Global]*Cell{}
	globalSnap = map[*ssa.Global]Value{}
	cellOwner = map[*Cell]*ssa.Global{}
	arrIDs = map[*Cell]int{}
	onceDone = map[*Cell]bool{}
	mutexHeld = map[*Cell]bool{}
	mutexWaiters = map[*Cell]int{}
	builders = map[*Cell]string{}
	errCounter = 0
}

// runInits executes the synthetic package initialisers of the listed packages concretely
// (lenient mode: a call that cannot be executed yields an opaque value). Globals whose
// initialiser did not run to completion are poisoned: reading one later aborts the run.
func (e *Exec) runInits(pkgs []string) {
	e.lenient = true
	defer func() { e.lenient = false }()
	for _, p := range pkgs {
		var sp *ssa.Package
		for _, q := range e.prog.AllPackages() {
			if q.Pkg.Path() == p {
				sp = q
			}
		}
		if sp == nil {
			e.lenient = false
			e.fail("init package %s not loaded", p)
		}
		initF := sp.Func("init")
		e.initDone = map[*ssa.Global]bool{}
		var aborted string
		func() {
			defer func() {
				if r := recover(); r != nil {
					aborted = fmt.Sprint(r)
				}
			}()
			e.loopCount = map[string]int{}
			e.loopSeen = map[string]int{}
			e.concCount = map[string]int{}
			e.regions = map[string]Term{}
			e.obs = map[string]Term{}
			e.call(initF, nil)
		}()
		if aborted != "" {
			for _, m := range sp.Members {
				if g, ok := m.(*ssa.Global); ok && e.hasInitStore(g) && !e.initDone[g] {
					e.poisoned[g] = "init of " + p + " aborted: " + aborted
					delete(globals, g)
				}
			}
			if os.Getenv("TRACEINIT") != "" {
				fmt.Println("init of", p, "aborted:", aborted)
			}
		}
	}
	e.snapshotGlobals()
}

// builtinStub implements the "@..." stub targets of the job's stub table.
//
//	@hash:<name>:<n>   idealised hash: an uninterpreted function (per input length) of the
//	                   input bytes, returning an [n]byte array
//	@pred:<name>       uninterpreted predicate over all byte arguments (signature checks)
//	@float             a float64-valued function: any value (floats are abstracted)
func (e *Exec) builtinStub(spec string, fn *ssa.Function, args []Value) Value {
	parts := strings.Split(spec, ":")
	switch parts[0] {
	case "@hash":
		n := 0
		fmt.Sscan(parts[2], &n)
		out := e.hashTerm(parts[1], e.bytesOf(args[0]), n)
		res := fn.Signature.Results().At(0).Type()
		if _, ok := res.Underlying().(*types.Array); ok {
			return VArray{out}
		}
		arr := newCell(typeByteArray(n))
		for i := range out {
			arr.Elems[i].V = out[i]
		}
		return VSlice{arr, 0, n, n}
	case "@float":
		// a function that computes a float64: any value (floats are abstracted); in
		// fp_precise mode the real body is executed instead
		if e.fpPrecise {
			return e.callBody(fn, args)
		}
		return floatTok
	case "@pred":
		var all []Term
		for _, a := range args {
			all = append(all, e.bytesOf(a)...)
		}
		return VBool{e.predTerm(parts[1], all)}
	}
	e.fail("unknown builtin stub %s", spec)
	return nil
}

// bytesOf flattens a []byte / [n]byte / string value into byte terms.
func (e *Exec) bytesOf(v Value) []Term {
	var out []Term
	switch x := v.(type) {
	case VSlice:
		for i := 0; i < x.Len; i++ {
			out = append(out, load(x.Arr.Elems[x.Off+i]).(VInt).T)
		}
	case VArray:
		for _, el := range x.E {
			out = append(out, el.(VInt).T)
		}
	case VStr:
		for i := 0; i < len(x.S); i++ {
			out = append(out, byteC(uint64(x.S[i])))
		}
	case VPtr:
		return e.bytesOf(load(x.C))
	case VSymSlice:
		e.fail("hash of a slice with symbolic extent")
	default:
		e.fail("bytesOf %T", v)
	}
	return out
}

func (e *Exec) concatBytes(in []Term) (Term, int) {
	if intMode {
		e.fail("idealised hashes need the bv integer theory")
	}
	if len(in) == 0 {
		return Term{}, 0
	}
	var sb strings.Builder
	if len(in) == 1 {
		return in[0], 8
	}
	sb.WriteString("(concat")
	for _, t := range in {
		sb.WriteString(" ")
		sb.WriteString(t.S)
	}
	sb.WriteString(")")
	return Term{S: sb.String(), Sort: 8 * len(in)}, 8 * len(in)
}

func (e *Exec) hashTerm(name string, in []Term, n int) []Value {
	allConst := !intMode
	for _, t := range in {
		if !t.Const {
			allConst = false
		}
	}
	if allConst {
		// concrete input: a concrete (pseudo) digest, tied to the uninterpreted function so
		// that symbolic applications stay consistent with it
		h := sha256.New()
		h.Write([]byte(name))
		for _, t := range in {
			h.Write([]byte{byte(t.U.Uint64())})
		}
		sum := h.Sum(nil)
		for len(sum) < n {
			sum = append(sum, sum...)
		}
		out := make([]Value, n)
		val := new(big.Int).SetBytes(sum[:n])
		e.noteHashApp(name, in, BV(8*n, val))
		for i := 0; i < n; i++ {
			out[i] = VInt{BVu(8, uint64(sum[i]))}
		}
		if len(in) > 0 {
			arg, w := e.concatBytes(in)
			f := fmt.Sprintf("hash_%s_%d", name, len(in))
			e.sol.DeclareFun(f, fmt.Sprintf("((_ BitVec %d)) (_ BitVec %d)", w, 8*n))
			e.sol.Assert(Eq(app(8*n, f, arg), BV(8*n, val)))
		}
		return out
	}
	key := name
	for _, t := range in {
		key += " " + t.S
	}
	hv, seen := e.hashMemo[key]
	if !seen {
		e.hashSeq++
		hv = fmt.Sprintf("h!%s!%d", name, e.hashSeq)
		e.hashMemo[key] = hv
		e.sol.Declare(hv, 8*n)
	}
	if seen {
	} else if len(in) == 0 {
		c := fmt.Sprintf("hash_%s_empty", name)
		e.sol.Declare(c, 8*n)
		e.sol.Assert(Eq(Term{S: hv, Sort: 8 * n}, Term{S: c, Sort: 8 * n}))
	} else {
		arg, w := e.concatBytes(in)
		f := fmt.Sprintf("hash_%s_%d", name, len(in))
		e.sol.DeclareFun(f, fmt.Sprintf("((_ BitVec %d)) (_ BitVec %d)", w, 8*n))
		e.sol.Assert(Eq(Term{S: hv, Sort: 8 * n}, app(8*n, f, arg)))
	}
	if !seen {
		e.noteHashApp(name, in, Term{S: hv, Sort: 8 * n})
	}
	out := make([]Value, n)
	for i := 0; i < n; i++ {
		hi := 8*(n-i) - 1
		out[i] = VInt{app(8, fmt.Sprintf("(_ extract %d %d)", hi, hi-7), Term{S: hv, Sort: 8 * n})}
	}
	return out
}

type hashApp struct {
	name string
	in   []Term
	out  Term
}

// noteHashApp records an application of an idealised hash and asserts collision freedom
// against every earlier application of the same hash on this path: different inputs give
// different digests.
func (e *Exec) noteHashApp(name string, in []Term, out Term) {
	for _, p := range e.hashApps {
		if p.name != name || p.out.Sort != out.Sort {
			continue
		}
		if len(p.in) != len(in) {
			e.sol.Assert(Not(Eq(p.out, out)))
			continue
		}
		same := BoolC(true)
		for i := range in {
			same = And(same, Eq(p.in[i], in[i]))
		}
		if same.Const && same.B {
			continue
		}
		e.sol.Assert(Or(same, Not(Eq(p.out, out))))
	}
	e.hashApps = append(e.hashApps, hashApp{name, in, out})
}

func (e *Exec) predTerm(name string, in []Term) Term {
	if !intMode && len(in) > 0 && len(in) <= 512 {
		// one argument per byte: equal inputs are recognised by congruence closure on the
		// byte terms (a single wide concatenation made z3 bit-blast 1024-bit equalities and
		// time out when two inputs were equal byte by byte)
		f := fmt.Sprintf("predb_%s_%d", name, len(in))
		sig := strings.Repeat("(_ BitVec 8) ", len(in))
		e.sol.DeclareFun(f, "("+strings.TrimSpace(sig)+") Bool")
		return app(SBool, f, in...)
	}
	arg, w := e.concatBytes(in)
	f := fmt.Sprintf("pred_%s_%d", name, len(in))
	e.sol.DeclareFun(f, fmt.Sprintf("((_ BitVec %d)) Bool", w))
	return app(SBool, f, arg)
}
