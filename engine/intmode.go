package main

import (
	"go/token"
	"go/types"
	"math/big"
)

var intMode bool

func pow2(k int) *big.Int { return new(big.Int).Lsh(big.NewInt(1), uint(k)) }

func typeWS(t types.Type) (int, bool) {
	b := t.Underlying().(*types.Basic)
	return intWidth(b)
}

// value of a machine int in Int mode is its mathematical value (signed types may be negative)
func imConst(v *big.Int) Term { return IntC(v) }

func imWrapAdd(t Term, w int, signed bool) Term {
	if t.Const {
		return imNorm(t.U, w, signed)
	}
	m := IntC(pow2(w))
	if signed {
		h := IntC(pow2(w - 1))
		return Ite(IntCmp(">=", t, h), IntBin("-", t, m), Ite(IntCmp("<", t, IntBin("-", IntC(bigZero()), h)), IntBin("+", t, m), t))
	}
	return Ite(IntCmp(">=", t, m), IntBin("-", t, m), Ite(IntCmp("<", t, IntC(bigZero())), IntBin("+", t, m), t))
}

func imNorm(v *big.Int, w int, signed bool) Term {
	x := new(big.Int).Mod(v, pow2(w))
	if signed && x.Cmp(pow2(w-1)) >= 0 {
		x.Sub(x, pow2(w))
	}
	return IntC(x)
}

func imWrapMod(t Term, w int, signed bool) Term {
	if t.Const {
		return imNorm(t.U, w, signed)
	}
	m := IntC(pow2(w))
	if signed {
		h := IntC(pow2(w - 1))
		return IntBin("-", app(SInt, "mod", IntBin("+", t, h), m), h)
	}
	return app(SInt, "mod", t, m)
}

func (e *Exec) imBinop(op token.Token, a, b Term, xt types.Type) Value {
	w, signed := typeWS(xt)
	switch op {
	case token.ADD:
		return VInt{imWrapAdd(IntBin("+", a, b), w, signed)}
	case token.SUB:
		return VInt{imWrapAdd(IntBin("-", a, b), w, signed)}
	case token.MUL:
		return VInt{imWrapMod(IntBin("*", a, b), w, signed)}
	case token.QUO, token.REM:
		e.oblige(Not(IntCmp("=", b, IntC(bigZero()))), "panic", "integer divide by zero")
		if signed && a.Const && b.Const && b.U.Sign() != 0 {
			q, r := new(big.Int).QuoRem(a.U, b.U, new(big.Int)) // Go semantics: truncated
			if op == token.QUO {
				return VInt{imNorm(q, w, signed)}
			}
			return VInt{imNorm(r, w, signed)}
		}
		if signed {
			e.fail("signed division in int mode")
		}
		if op == token.QUO {
			return VInt{app(SInt, "div", a, b)}
		}
		return VInt{app(SInt, "mod", a, b)}
	case token.EQL:
		return VBool{IntCmp("=", a, b)}
	case token.NEQ:
		return VBool{Not(IntCmp("=", a, b))}
	case token.LSS:
		return VBool{IntCmp("<", a, b)}
	case token.LEQ:
		return VBool{IntCmp("<=", a, b)}
	case token.GTR:
		return VBool{IntCmp(">", a, b)}
	case token.GEQ:
		return VBool{IntCmp(">=", a, b)}
	case token.SHL:
		if b.Const && !signed {
			return VInt{imWrapMod(IntBin("*", a, IntC(pow2(int(b.U.Int64())))), w, signed)}
		}
	case token.SHR:
		if b.Const && !signed {
			return VInt{app(SInt, "div", a, IntC(pow2(int(b.U.Int64()))))}
		}
	case token.AND:
		if b.Const && !signed {
			k := new(big.Int).Add(b.U, big.NewInt(1))
			if k.BitLen() > 0 && new(big.Int).And(k, b.U).Sign() == 0 { // mask 2^k-1
				return VInt{app(SInt, "mod", a, IntC(k))}
			}
		}
	}
	if a.Const && b.Const {
		// fall back to BV folding
		var r Term
		if op == token.SHL || op == token.SHR {
			r = BVShift(op.String(), BV(w, a.U), BV(64, b.U), signed)
		} else {
			r = BVBin(op.String(), BV(w, a.U), BV(w, b.U), signed)
		}
		if r.Sort == SBool {
			return VBool{r}
		}
		if signed {
			return VInt{IntC(signedVal(w, r.U))}
		}
		return VInt{IntC(r.U)}
	}
	e.fail("int-mode binop %v", op)
	return nil
}

func (e *Exec) imConvert(t Term, from, to types.Type) Term {
	fw, fs := typeWS(from)
	tw, ts := typeWS(to)
	if fs == ts && tw >= fw {
		return t
	}
	if !fs && ts && tw > fw {
		return t
	}
	return imWrapMod(t, tw, ts)
}

func (e *Exec) imFresh(name string, w int, signed bool) Term {
	t := e.fresh(name, SInt)
	lo, hi := bigZero(), pow2(w)
	if signed {
		lo, hi = new(big.Int).Neg(pow2(w-1)), pow2(w-1)
	}
	e.sol.Assert(And(IntCmp(">=", t, IntC(lo)), IntCmp("<", t, IntC(hi))))
	return t
}
