package main

import (
	"fmt"
	"go/types"
	"math/big"
	"strings"
)

type intrinsic func(e *Exec, args []Value) Value

var intrinsics = map[string]intrinsic{}

// verifHooks are executor hooks callable from any overlay shim / harness package by name
// (functions whose name starts with "verif").
var verifHooks = map[string]intrinsic{}

func intrinsicFor(fn interface {
	String() string
	Name() string
}) (intrinsic, bool) {
	if h, ok := intrinsics[fn.String()]; ok {
		return h, true
	}
	if strings.HasPrefix(fn.Name(), "verif") {
		if h, ok := verifHooks[fn.Name()]; ok {
			return h, true
		}
	}
	return nil, false
}

func strArg(v Value) string { return v.(VStr).S }

func bigOf(e *Exec, v Value) Term {
	p := v.(VPtr)
	if p.C == nil {
		e.oblige(BoolC(false), "panic", "nil *big.Int receiver/argument")
	}
	return p.C.V.(VBig).T
}
func setBig(v Value, t Term) Value {
	v.(VPtr).C.V = VBig{t}
	return v
}
func newBig(t Term) Value {
	c := &Cell{V: VBig{t}}
	return VPtr{c}
}

var errCounter int
var arrIDs = map[*Cell]int{}

// VErr is an opaque error object (errors.New / fmt.Errorf): identity plus wrapped causes.
// Its dynamic "type" is the interface type error itself, which no real value can have.
type VErr struct {
	ID     string
	Causes []VIface
}

func newError(site string, causes ...VIface) Value {
	errCounter++
	return VIface{Typ: errType, Val: VErr{ID: fmt.Sprintf("err@%s#%d", site, errCounter), Causes: causes}}
}

// unwrapErr returns the errors directly wrapped by err.
func (e *Exec) unwrapErr(err VIface) []VIface {
	if err.Typ == nil {
		return nil
	}
	if err.Typ == errType {
		return err.Val.(VErr).Causes
	}
	ms := e.prog.MethodSets.MethodSet(err.Typ)
	for i := 0; i < ms.Len(); i++ {
		sel := ms.At(i)
		if sel.Obj().Name() == "Unwrap" {
			fn := e.prog.MethodValue(sel)
			if fn == nil {
				continue
			}
			switch r := e.call(fn, []Value{err.Val}).(type) {
			case VIface:
				if r.Typ != nil {
					return []VIface{r}
				}
			case VSlice:
				var out []VIface
				for i := 0; i < r.Len; i++ {
					out = append(out, load(r.Arr.Elems[r.Off+i]).(VIface))
				}
				return out
			}
		}
	}
	return nil
}

func (e *Exec) errorsIs(err, target VIface) Term {
	if err.Typ == nil {
		return BoolC(target.Typ == nil)
	}
	if eq := e.ifaceEq(err, target); !eq.Const || eq.B {
		if eq.Const {
			return eq
		}
		e.fail("errors.Is with symbolic equality")
	}
	for _, c := range e.unwrapErr(err) {
		if r := e.errorsIs(c, target); r.Const && r.B {
			return r
		}
	}
	return BoolC(false)
}

func (e *Exec) errorsAs(err VIface, target VIface) bool {
	if err.Typ == nil {
		return false
	}
	pt, ok := target.Typ.(*types.Pointer)
	if !ok {
		e.fail("errors.As target is not a pointer")
	}
	T := pt.Elem()
	if err.Typ != errType {
		if types.IsInterface(T) {
			if types.Implements(err.Typ, T.Underlying().(*types.Interface)) {
				e.storePtr(target.Val, err)
				return true
			}
		} else if types.Identical(err.Typ, T) {
			e.storePtr(target.Val, err.Val)
			return true
		}
	} else if types.IsInterface(T) && types.Identical(T, errType) {
		e.storePtr(target.Val, err)
		return true
	}
	for _, c := range e.unwrapErr(err) {
		if e.errorsAs(c, target) {
			return true
		}
	}
	return false
}

func toInt(t Term, signed bool) Term {
	if t.Sort == SInt {
		return t
	}
	return BV2Int(t, signed)
}

func mint(v int64) Term {
	if intMode {
		return IntC(big.NewInt(v))
	}
	return BV(64, big.NewInt(v))
}

func init() {
	S := "verifharness/sym."
	mk := func(w int, signed bool) intrinsic {
		return func(e *Exec, a []Value) Value {
			if intMode {
				return VInt{e.imFresh(strArg(a[0]), w, signed)}
			}
			return VInt{e.fresh(strArg(a[0]), w)}
		}
	}
	intrinsics[S+"U64"] = mk(64, false)
	intrinsics[S+"U32"] = mk(32, false)
	intrinsics[S+"U16"] = mk(16, false)
	intrinsics[S+"U8"] = mk(8, false)
	intrinsics[S+"Int"] = mk(64, true)
	intrinsics[S+"Bool"] = func(e *Exec, a []Value) Value { return VBool{e.fresh(strArg(a[0]), SBool)} }
	intrinsics[S+"Big"] = func(e *Exec, a []Value) Value { return newBig(e.fresh(strArg(a[0]), SInt)) }
	intrinsics[S+"Bytes"] = func(e *Exec, a []Value) Value {
		name := strArg(a[0])
		nT := a[1].(VInt).T
		if !nT.Const {
			e.fail("sym.Bytes length must be concrete")
		}
		n := int(nT.U.Int64())
		arr := newCell(typeByteArray(n))
		for i := 0; i < n; i++ {
			if intMode {
				arr.Elems[i].V = VInt{e.imFresh(fmt.Sprintf("%s_%d", name, i), 8, false)}
			} else {
				arr.Elems[i].V = VInt{e.fresh(fmt.Sprintf("%s_%d", name, i), 8)}
			}
		}
		return VSlice{arr, 0, n, n}
	}
	intrinsics[S+"Assume"] = func(e *Exec, a []Value) Value { e.assume(a[0].(VBool).T); return nil }
	intrinsics[S+"Assert"] = func(e *Exec, a []Value) Value {
		e.oblige(a[0].(VBool).T, "assert", strArg(a[1]))
		return nil
	}
	intrinsics[S+"Reach"] = func(e *Exec, a []Value) Value { e.reached[strArg(a[0])] = true; return nil }
	intrinsics[S+"Check"] = func(e *Exec, a []Value) Value {
		e.check(a[0].(VBool).T, "assert", strArg(a[1]))
		return nil
	}
	intrinsics[S+"Region"] = func(e *Exec, a []Value) Value { e.regions[strArg(a[0])] = a[1].(VBool).T; return nil }
	intrinsics[S+"Param"] = func(e *Exec, a []Value) Value {
		v, ok := e.params[strArg(a[0])]
		if !ok {
			e.fail("harness parameter %s not supplied by the job", strArg(a[0]))
		}
		return VInt{mint(int64(v))}
	}
	obs := func(e *Exec, a []Value) Value {
		n := strArg(a[0])
		if _, ok := e.obs[n]; !ok {
			e.obsOrder = append(e.obsOrder, n)
		}
		switch v := a[1].(type) {
		case VInt:
			e.obs[n] = v.T
		case VBool:
			e.obs[n] = v.T
		}
		return nil
	}
	intrinsics[S+"ObsU64"] = obs
	intrinsics[S+"ObsInt"] = obs
	intrinsics[S+"ObsBool"] = obs
	intrinsics[S+"BoundExceeded"] = func(e *Exec, a []Value) Value {
		e.unwound = append(e.unwound, "harness bound: "+strArg(a[0]))
		panic(pathEnd{"BOUND " + strArg(a[0])})
	}
	intrinsics[S+"BigNonNeg"] = func(e *Exec, a []Value) Value {
		t := e.fresh(strArg(a[0]), SInt)
		e.sol.Assert(IntCmp(">=", t, IntC(bigZero())))
		return newBig(t)
	}
	intrinsics[S+"SameFunc"] = func(e *Exec, a []Value) Value {
		fa, ok1 := a[0].(VIface).Val.(VFunc)
		fb, ok2 := a[1].(VIface).Val.(VFunc)
		if !ok1 || !ok2 {
			e.fail("SameFunc on non-functions")
		}
		return VBool{BoolC(fa.Fn == fb.Fn && fa.Fn != nil)}
	}
	// RunUntilBlocked(f): run a goroutine body until it returns (false) or blocks on a
	// channel operation with nothing ready (true); the harness continues either way
	intrinsics[S+"RunUntilBlocked"] = func(e *Exec, a []Value) (res Value) {
		f := a[0].(VFunc)
		d0, s0 := e.depth, len(e.fnStack)
		defer func() {
			if r := recover(); r != nil {
				if pe, ok := r.(pathEnd); ok && strings.HasPrefix(pe.why, "BLOCKED") {
					e.depth, e.fnStack = d0, e.fnStack[:s0]
					e.blocked++
					res = VBool{BoolC(true)}
					return
				}
				panic(r)
			}
		}()
		e.callClosure(f, nil)
		return VBool{BoolC(false)}
	}
	// RunWithEnv(f, env): like RunUntilBlocked, but whenever f is about to block the scripted
	// environment env gets a turn; f blocks for good once env reports it has nothing left to do
	intrinsics[S+"RunWithEnv"] = func(e *Exec, a []Value) (res Value) {
		f := a[0].(VFunc)
		d0, s0, n0 := e.depth, len(e.fnStack), len(e.envStack)
		e.envStack = append(e.envStack, a[1].(VFunc))
		defer func() {
			e.envStack = e.envStack[:n0]
			e.envRunning = false
			if r := recover(); r != nil {
				if pe, ok := r.(pathEnd); ok && strings.HasPrefix(pe.why, "BLOCKED") {
					e.depth, e.fnStack = d0, e.fnStack[:s0]
					e.blocked++
					res = VBool{BoolC(true)}
					return
				}
				panic(r)
			}
		}()
		e.callClosure(f, nil)
		return VBool{BoolC(false)}
	}
	// RunGoroutines(env, bodies...): cooperative execution of several goroutine bodies with a
	// scripted environment that acts when all of them are blocked; reports whether some body
	// is still blocked at the end
	intrinsics[S+"RunGoroutines"] = func(e *Exec, a []Value) Value {
		var env *VFunc
		if f, ok := a[0].(VFunc); ok && (f.Fn != nil) {
			env = &f
		}
		var bodies []VFunc
		sl := a[1].(VSlice)
		for i := 0; i < sl.Len; i++ {
			bodies = append(bodies, load(sl.Arr.Elems[sl.Off+i]).(VFunc))
		}
		return VBool{BoolC(e.runGoroutines(env, bodies))}
	}
	// AllocatedBy(f): natively the bytes allocated while f runs; under the executor f just runs
	// (allocation sizes are checked by the MakeSlice obligation) and the result is 0
	intrinsics[S+"AllocatedBy"] = func(e *Exec, a []Value) Value {
		e.callClosure(a[0].(VFunc), nil)
		if intMode {
			return VInt{IntC(bigZero())}
		}
		return VInt{BVu(64, 0)}
	}
	for _, n := range []string{"math.Min", "math.Max", "math.Floor", "math.Ceil", "math.Abs", "math.Pow", "math.Log", "math.Exp", "math.Sqrt", "math.Trunc", "math.Round"} {
		n := n
		intrinsics[n] = func(e *Exec, a []Value) Value {
			if e.fpPrecise {
				switch n {
				case "math.Min":
					return VFloat{app(SFP, "fp.min", e.fterm(a[0]), e.fterm(a[1]))}
				case "math.Max":
					return VFloat{app(SFP, "fp.max", e.fterm(a[0]), e.fterm(a[1]))}
				case "math.Abs":
					return VFloat{app(SFP, "fp.abs", e.fterm(a[0]))}
				case "math.Sqrt":
					return VFloat{app(SFP, "fp.sqrt RNE", e.fterm(a[0]))}
				}
				e.nondet++
				return VFloat{e.fresh(sprintf("fany_%d", e.nondet), SFP)}
			}
			return floatTok
		}
	}
	intrinsics["(*math/big.Rat).Float64"] = func(e *Exec, a []Value) Value {
		e.nondet++
		if e.fpPrecise {
			// a zero-valued Rat is 0; anything else some float
			if c := a[0].(VPtr).C; c != nil && e.flatKey(load(c), 0) == e.flatKey(zero(c.Typ), 0) {
				return VTuple{[]Value{VFloat{Term{S: "(_ +zero 11 53)", Sort: SFP}}, VBool{BoolC(true)}}}
			}
			return VTuple{[]Value{VFloat{e.fresh(sprintf("fany_%d", e.nondet), SFP)}, VBool{e.fresh(sprintf("rat_exact_%d", e.nondet), SBool)}}}
		}
		return VTuple{[]Value{floatTok, VBool{e.fresh(sprintf("rat_exact_%d", e.nondet), SBool)}}}
	}
	intrinsics[S+"Symbolic"] = func(e *Exec, a []Value) Value { return VBool{BoolC(true)} }

	verifHooks["verifBool"] = func(e *Exec, a []Value) Value {
		if !e.injectFailures {
			return VBool{BoolC(false)}
		}
		e.nondet++
		return VBool{e.fresh(fmt.Sprintf("%s_%d", strArg(a[0]), e.nondet), SBool)}
	}
	// ilen UF: length of the well-formed CBOR item starting at absolute offset off of data's backing array
	// enc(v): an opaque encoding that is a function of the value -- the same value (same
	// flattened leaves) yields the same symbolic bytes on a path, different values fresh ones
	verifHooks["verifOpaqueBytes"] = func(e *Exec, a []Value) Value {
		key := strArg(a[0]) + "|" + e.flatKey(a[1], 0)
		if v, ok := e.encMemo[key]; ok {
			return v
		}
		e.nondet++
		n := 4
		arr := newCell(typeByteArray(n))
		for i := 0; i < n; i++ {
			if intMode {
				arr.Elems[i].V = VInt{e.imFresh(fmt.Sprintf("%s%d_%d", strArg(a[0]), e.nondet, i), 8, false)}
			} else {
				arr.Elems[i].V = VInt{e.fresh(fmt.Sprintf("%s%d_%d", strArg(a[0]), e.nondet, i), 8)}
			}
		}
		v := VSlice{arr, 0, n, n}
		e.encMemo[key] = v
		return v
	}
	// a decode into a destination the contract does not model: "the decoder produced some
	// value" -- the destination is left as the harness prepared it
	verifHooks["verifDeposit"] = func(e *Exec, a []Value) Value { return VBool{BoolC(true)} }
	// verifCopyShape(src any, dst any(*T)): if src and *dst flatten to the same list of scalar
	// leaves (what a toarray struct or a bare scalar looks like on the wire) copy them over
	verifHooks["verifCopyShape"] = func(e *Exec, a []Value) Value {
		src := a[0].(VIface)
		dst := a[1].(VIface)
		dp, ok := dst.Val.(VPtr)
		if !ok || dp.C == nil || src.Typ == nil {
			return VBool{BoolC(false)}
		}
		var leaves []Value
		var flat func(v Value) bool
		flat = func(v Value) bool {
			switch x := v.(type) {
			case VStruct:
				for _, f := range x.F {
					if !flat(f) {
						return false
					}
				}
			case VInt, VBool:
				leaves = append(leaves, x)
			default:
				return false
			}
			return true
		}
		if !flat(src.Val) {
			return VBool{BoolC(false)}
		}
		i := 0
		okAll := true
		var fill func(c *Cell)
		fill = func(c *Cell) {
			if c.Fields != nil {
				for _, f := range c.Fields {
					fill(f)
				}
				return
			}
			if c.V == nil { // empty struct
				return
			}
			if i >= len(leaves) {
				okAll = false
				return
			}
			switch c.V.(type) {
			case VInt:
				lv, isInt := leaves[i].(VInt)
				if !isInt {
					okAll = false
					return
				}
				w1, _ := typeWS(c.Typ)
				if !intMode && lv.T.Sort != w1 {
					okAll = false
					return
				}
				c.V = lv
			case VBool:
				lv, isB := leaves[i].(VBool)
				if !isB {
					okAll = false
					return
				}
				c.V = lv
			default:
				okAll = false
			}
			i++
		}
		// dry run on a copy first so that a mismatch leaves dst untouched
		memo := &copyMemo{cells: map[*Cell]*Cell{}, maps: map[*MapObj]*MapObj{}, chans: map[*ChanObj]*ChanObj{}}
		fill(memo.cell(dp.C))
		if !okAll || i != len(leaves) {
			return VBool{BoolC(false)}
		}
		i = 0
		fill(dp.C)
		return VBool{BoolC(true)}
	}
	verifHooks["verifAssign"] = func(e *Exec, a []Value) Value {
		dst, ok1 := a[0].(VIface)
		src, ok2 := a[1].(VIface)
		if !ok1 || !ok2 || dst.Typ == nil || src.Typ == nil {
			return VBool{BoolC(false)}
		}
		dt, ok1 := dst.Typ.(*types.Pointer)
		st, ok2 := src.Typ.(*types.Pointer)
		if ok1 && (!ok2 || !types.Identical(dt.Elem().Underlying(), st.Elem().Underlying())) && types.Identical(dt.Elem().Underlying(), src.Typ.Underlying()) {
			// the prepared object is a value of the destination's element type
			if dp := dst.Val.(VPtr); dp.C != nil {
				store(dp.C, src.Val)
				return VBool{BoolC(true)}
			}
		}
		if !ok1 || !ok2 || !types.Identical(dt.Elem().Underlying(), st.Elem().Underlying()) {
			return VBool{BoolC(false)}
		}
		dp, sp := dst.Val.(VPtr), src.Val.(VPtr)
		if dp.C == nil || sp.C == nil {
			return VBool{BoolC(false)}
		}
		store(dp.C, load(sp.C))
		return VBool{BoolC(true)}
	}
	verifHooks["verifBoundExceeded"] = func(e *Exec, a []Value) Value {
		e.unwound = append(e.unwound, "contract bound: "+strArg(a[0]))
		panic(pathEnd{"BOUND " + strArg(a[0])})
	}
	// the unread part of a bytes.Reader (struct{s []byte; i int64; prevRune int}), same backing array
	verifHooks["verifReaderBytes"] = func(e *Exec, a []Value) Value {
		c := a[0].(VPtr).C
		s := load(c.Fields[0])
		i := load(c.Fields[1]).(VInt).T
		if !i.Const || i.U.Sign() != 0 {
			e.fail("verifReaderBytes on a partially read reader")
		}
		return s
	}
	verifHooks["verifItemLen"] = func(e *Exec, a []Value) Value {
		ss, ok := e.toSym(a[0])
		if !ok {
			e.fail("verifItemLen on %T", a[0])
		}
		off := a[1].(VInt).T
		id, ok := arrIDs[ss.Arr]
		if !ok {
			id = len(arrIDs)
			arrIDs[ss.Arr] = id
		}
		name := fmt.Sprintf("ilen_%d", id)
		abs := tAdd(ss.Off, off)
		if intMode {
			e.sol.DeclareFun(name, "(Int) Int")
			t := app(SInt, name, abs)
			e.sol.Assert(And(IntCmp(">=", t, IntC(big.NewInt(1))), IntCmp("<=", t, IntC(big.NewInt(64)))))
			return VInt{e.concretise(t)}
		}
		e.sol.DeclareFun(name, "((_ BitVec 64)) (_ BitVec 64)")
		t := app(64, name, abs)
		e.sol.Assert(And(BVBin(">=", t, BVu(64, 1), false), BVBin("<=", t, BVu(64, 64), false)))
		return VInt{e.concretise(t)}
	}
	B := "(*math/big.Int)."
	bin := func(op string) intrinsic {
		return func(e *Exec, a []Value) Value { return setBig(a[0], IntBin(op, bigOf(e, a[1]), bigOf(e, a[2]))) }
	}
	intrinsics[B+"Add"] = bin("+")
	intrinsics[B+"Sub"] = bin("-")
	intrinsics[B+"Mul"] = bin("*")
	intrinsics[B+"Div"] = func(e *Exec, a []Value) Value {
		y := bigOf(e, a[2])
		e.oblige(Not(IntCmp("=", y, IntC(bigZero()))), "panic", "big.Int division by zero")
		return setBig(a[0], IntBin("div", bigOf(e, a[1]), y))
	}
	intrinsics[B+"Mod"] = func(e *Exec, a []Value) Value {
		y := bigOf(e, a[2])
		e.oblige(Not(IntCmp("=", y, IntC(bigZero()))), "panic", "big.Int division by zero")
		return setBig(a[0], IntBin("mod", bigOf(e, a[1]), y))
	}
	shiftBy := func(e *Exec, v Value) Term {
		n := e.concretise(a2term(v))
		if !n.Const || n.U.Sign() < 0 || n.U.BitLen() > 16 {
			e.fail("big.Int shift by a non-constant amount")
		}
		return IntC(new(big.Int).Lsh(big.NewInt(1), uint(n.U.Uint64())))
	}
	intrinsics[B+"Lsh"] = func(e *Exec, a []Value) Value {
		return setBig(a[0], IntBin("*", bigOf(e, a[1]), shiftBy(e, a[2])))
	}
	intrinsics[B+"Rsh"] = func(e *Exec, a []Value) Value {
		return setBig(a[0], IntBin("div", bigOf(e, a[1]), shiftBy(e, a[2])))
	}
	intrinsics[B+"Abs"] = func(e *Exec, a []Value) Value {
		x := bigOf(e, a[1])
		return setBig(a[0], Ite(IntCmp("<", x, IntC(bigZero())), IntBin("-", IntC(bigZero()), x), x))
	}
	intrinsics[B+"Set"] = func(e *Exec, a []Value) Value { return setBig(a[0], bigOf(e, a[1])) }
	intrinsics[B+"Neg"] = func(e *Exec, a []Value) Value {
		return setBig(a[0], IntBin("-", IntC(bigZero()), bigOf(e, a[1])))
	}
	intrinsics[B+"SetBytes"] = func(e *Exec, a []Value) Value {
		if !intMode {
			e.fail("big.Int.SetBytes needs the int integer theory")
		}
		bs := e.bytesOf(a[1])
		acc := IntC(bigZero())
		for _, b := range bs {
			acc = IntBin("+", IntBin("*", acc, IntC(big.NewInt(256))), b)
		}
		return setBig(a[0], acc)
	}
	intrinsics[B+"String"] = func(e *Exec, a []Value) Value { return VStr{"<big.Int>"} } // messages only
	intrinsics[B+"SetUint64"] = func(e *Exec, a []Value) Value { return setBig(a[0], toInt(a[1].(VInt).T, false)) }
	intrinsics[B+"SetInt64"] = func(e *Exec, a []Value) Value { return setBig(a[0], toInt(a[1].(VInt).T, true)) }
	intrinsics["math/big.NewInt"] = func(e *Exec, a []Value) Value { return newBig(toInt(a[0].(VInt).T, true)) }
	intrinsics[B+"Sign"] = func(e *Exec, a []Value) Value {
		x := bigOf(e, a[0])
		z := IntC(bigZero())
		return VInt{Ite(IntCmp("<", x, z), mint(-1), Ite(IntCmp("=", x, z), mint(0), mint(1)))}
	}
	intrinsics[B+"Cmp"] = func(e *Exec, a []Value) Value {
		x, y := bigOf(e, a[0]), bigOf(e, a[1])
		return VInt{Ite(IntCmp("<", x, y), mint(-1), Ite(IntCmp("=", x, y), mint(0), mint(1)))}
	}
	two64 := IntC(new(big.Int).Lsh(big.NewInt(1), 64))
	intrinsics[B+"IsUint64"] = func(e *Exec, a []Value) Value {
		x := bigOf(e, a[0])
		return VBool{And(IntCmp(">=", x, IntC(bigZero())), IntCmp("<", x, two64))}
	}
	intrinsics[B+"Uint64"] = func(e *Exec, a []Value) Value {
		// low 64 bits of |x|
		x := bigOf(e, a[0])
		abs := Ite(IntCmp("<", x, IntC(bigZero())), IntBin("-", IntC(bigZero()), x), x)
		if intMode {
			return VInt{imWrapMod(abs, 64, false)}
		}
		return VInt{Int2BV(abs, 64)}
	}

	intrinsics["math/bits.Mul64"] = func(e *Exec, a []Value) Value {
		x, y := a[0].(VInt).T, a[1].(VInt).T
		if intMode {
			p := IntBin("*", x, y)
			W := IntC(pow2(64))
			return VTuple{[]Value{VInt{app(SInt, "div", p, W)}, VInt{app(SInt, "mod", p, W)}}}
		}
		p := BVBin("*", Resize(x, 128, false), Resize(y, 128, false), false)
		hi := app(64, "(_ extract 127 64)", p)
		lo := app(64, "(_ extract 63 0)", p)
		if p.Const {
			hi = BV(64, new(big.Int).Rsh(p.U, 64))
			lo = BV(64, p.U)
		}
		return VTuple{[]Value{VInt{hi}, VInt{lo}}}
	}
	intrinsics["math/bits.Add64"] = func(e *Exec, a []Value) Value {
		x, y, c := a[0].(VInt).T, a[1].(VInt).T, a[2].(VInt).T
		if intMode {
			s := IntBin("+", IntBin("+", x, y), c)
			W := IntC(pow2(64))
			return VTuple{[]Value{VInt{imWrapAdd(s, 64, false)}, VInt{Ite(IntCmp(">=", s, W), IntC(big.NewInt(1)), IntC(bigZero()))}}}
		}
		s := BVBin("+", BVBin("+", Resize(x, 65, false), Resize(y, 65, false), false), Resize(c, 65, false), false)
		sum := app(64, "(_ extract 63 0)", s)
		carry := Resize(app(1, "(_ extract 64 64)", s), 64, false)
		if s.Const {
			sum = BV(64, s.U)
			carry = BV(64, new(big.Int).Rsh(s.U, 64))
		}
		return VTuple{[]Value{VInt{sum}, VInt{carry}}}
	}
	intrinsics["errors.New"] = func(e *Exec, a []Value) Value { return newError("errors.New:" + strArg(a[0])) }
	intrinsics["fmt.Errorf"] = func(e *Exec, a []Value) Value {
		// every error-valued argument is recorded as a wrapped cause (over-approximates %w)
		var causes []VIface
		if sl, ok := a[1].(VSlice); ok && strings.Contains(strArg(a[0]), "%w") {
			for i := 0; i < sl.Len; i++ {
				if v, ok := load(sl.Arr.Elems[sl.Off+i]).(VIface); ok && v.Typ != nil {
					if v.Typ == errType || types.Implements(v.Typ, errType.Underlying().(*types.Interface)) {
						causes = append(causes, v)
					}
				}
			}
		}
		return newError("fmt.Errorf:"+strArg(a[0]), causes...)
	}
	// sort.Slice / sort.SliceStable: insertion sort driven by the real less function
	sortSlice := func(e *Exec, a []Value) Value {
		sl, ok := a[0].(VIface).Val.(VSlice)
		if !ok {
			e.fail("sort.Slice on %T", a[0].(VIface).Val)
		}
		less := a[1].(VFunc)
		for i := 1; i < sl.Len; i++ {
			for j := i; j > 0; j-- {
				r := e.callClosure(less, []Value{VInt{lenC(j)}, VInt{lenC(j - 1)}}).(VBool).T
				if !e.decide(r) {
					break
				}
				cj, ck := sl.Arr.Elems[sl.Off+j], sl.Arr.Elems[sl.Off+j-1]
				vj, vk := load(cj), load(ck)
				store(cj, vk)
				store(ck, vj)
			}
		}
		return nil
	}
	intrinsics["sort.Slice"] = sortSlice
	intrinsics["sort.SliceStable"] = sortSlice
	intrinsics["bytes.Equal"] = func(e *Exec, a []Value) Value {
		x, y := e.bytesOf(a[0]), e.bytesOf(a[1])
		if len(x) != len(y) {
			return VBool{BoolC(false)}
		}
		r := BoolC(true)
		for i := range x {
			r = And(r, Eq(x[i], y[i]))
		}
		return VBool{r}
	}
	// bytes.Compare: lexicographic order, a proper prefix sorts first
	intrinsics["bytes.Compare"] = func(e *Exec, a []Value) Value {
		x, y := e.bytesOf(a[0]), e.bytesOf(a[1])
		n := len(x)
		if len(y) < n {
			n = len(y)
		}
		res := mint(0)
		switch {
		case len(x) < len(y):
			res = mint(-1)
		case len(x) > len(y):
			res = mint(1)
		}
		for i := n - 1; i >= 0; i-- {
			var lt, gt Term
			if intMode {
				lt, gt = IntCmp("<", x[i], y[i]), IntCmp(">", x[i], y[i])
			} else {
				lt, gt = BVBin("<", x[i], y[i], false), BVBin(">", x[i], y[i], false)
			}
			res = Ite(lt, mint(-1), Ite(gt, mint(1), res))
		}
		return VInt{res}
	}
	intrinsics["crypto/subtle.ConstantTimeCompare"] = func(e *Exec, a []Value) Value {
		x, y := e.bytesOf(a[0]), e.bytesOf(a[1])
		if len(x) != len(y) {
			return VInt{mint(0)}
		}
		r := BoolC(true)
		for i := range x {
			r = And(r, Eq(x[i], y[i]))
		}
		return VInt{Ite(r, mint(1), mint(0))}
	}
	intrinsics["encoding/hex.EncodeToString"] = func(e *Exec, a []Value) Value {
		bs := e.bytesOf(a[0])
		out := make([]byte, 0, 2*len(bs))
		for _, b := range bs {
			if !b.Const {
				return VStr{"<hex of symbolic bytes>"} // only ever used in messages
			}
			out = append(out, "0123456789abcdef"[b.U.Uint64()>>4], "0123456789abcdef"[b.U.Uint64()&15])
		}
		return VStr{string(out)}
	}
	intrinsics["(*sync/atomic.Value).Load"] = func(e *Exec, a []Value) Value {
		c := a[0].(VPtr).C.Fields[0]
		if v, ok := c.V.(VIface); ok {
			return v
		}
		return VIface{}
	}
	intrinsics["(*sync/atomic.Value).Store"] = func(e *Exec, a []Value) Value {
		a[0].(VPtr).C.Fields[0].V = a[1]
		return nil
	}
	intrinsics["runtime.NumCPU"] = func(e *Exec, a []Value) Value { return VInt{mint(4)} }
	intrinsics["runtime.GOMAXPROCS"] = func(e *Exec, a []Value) Value { return VInt{mint(4)} }
	intrinsics["strings.EqualFold"] = func(e *Exec, a []Value) Value {
		return VBool{BoolC(strings.EqualFold(strArg(a[0]), strArg(a[1])))}
	}
	intrinsics["strings.ToLower"] = func(e *Exec, a []Value) Value { return VStr{strings.ToLower(strArg(a[0]))} }
	intrinsics["strings.Contains"] = func(e *Exec, a []Value) Value {
		return VBool{BoolC(strings.Contains(strArg(a[0]), strArg(a[1])))}
	}
	intrinsics["strings.HasPrefix"] = func(e *Exec, a []Value) Value {
		return VBool{BoolC(strings.HasPrefix(strArg(a[0]), strArg(a[1])))}
	}
	intrinsics["fmt.Sprintf"] = func(e *Exec, a []Value) Value { return VStr{"<sprintf>"} }
}

func byteC(v uint64) Term {
	if intMode {
		return IntC(new(big.Int).SetUint64(v))
	}
	return BVu(8, v)
}

// flatKey renders a value structurally (terms of scalars, contents of slices, pointees) for
// memoising functions of values.
func (e *Exec) flatKey(v Value, depth int) string {
	if depth > 8 {
		return "..."
	}
	switch x := v.(type) {
	case VInt:
		return x.T.S
	case VBool:
		return x.T.S
	case VBig:
		return x.T.S
	case VStr:
		return fmt.Sprintf("%q", x.S)
	case VSymStr:
		s := "str["
		for _, f := range x.E {
			s += e.flatKey(f, depth+1) + ","
		}
		return s + "]"
	case VStruct:
		s := "{"
		for _, f := range x.F {
			s += e.flatKey(f, depth+1) + ","
		}
		return s + "}"
	case VArray:
		s := "["
		for _, f := range x.E {
			s += e.flatKey(f, depth+1) + ","
		}
		return s + "]"
	case VSlice:
		if x.Arr == nil {
			return "nil[]"
		}
		s := "s["
		for i := 0; i < x.Len; i++ {
			s += e.flatKey(load(x.Arr.Elems[x.Off+i]), depth+1) + ","
		}
		return s + "]"
	case VPtr:
		if x.C == nil {
			return "nilp"
		}
		return "&" + e.flatKey(load(x.C), depth+1)
	case VIface:
		if x.Typ == nil {
			return "nili"
		}
		return "i(" + x.Typ.String() + ":" + e.flatKey(x.Val, depth+1) + ")"
	case VMap:
		if x.M == nil {
			return "nilm"
		}
		s := "m{"
		for i := range x.M.Keys {
			s += e.flatKey(x.M.Keys[i], depth+1) + ":" + e.flatKey(x.M.Vals[i].V, depth+1) + ","
		}
		return s + "}"
	case nil:
		return "nil"
	}
	return fmt.Sprintf("%T", v)
}

// concretise returns the constant a term is forced to by the current path condition, or the
// term itself when more than one value is possible.
func a2term(v Value) Term { return v.(VInt).T }

func (e *Exec) concretise(t Term) Term {
	if t.Const {
		return t
	}
	if e.sol.Check() != "sat" {
		return t
	}
	probe := fmt.Sprintf("cz!%d", e.nondet)
	e.nondet++
	e.sol.Declare(probe, t.Sort)
	pt := Term{S: probe, Sort: t.Sort}
	e.sol.Assert(Eq(pt, t))
	if e.sol.Check() != "sat" {
		return t
	}
	vals := e.sol.GetValues([]string{probe})
	v, ok := new(big.Int).SetString(vals[probe], 10)
	if !ok {
		return t
	}
	var c Term
	if t.Sort == SInt {
		c = IntC(v)
	} else {
		c = BV(t.Sort, v)
	}
	e.sol.Push()
	e.sol.Assert(Not(Eq(t, c)))
	r := e.sol.Check()
	e.sol.Pop()
	if r == "unsat" {
		return c
	}
	return t
}
