// gosx — bounded symbolic executor for Go SSA, emitting SMT-LIB2 to a live solver.
//
// usage: gosx <job.json> <result.json>
//
// A job names a harness module directory, a package pattern, overlay shims and a list of
// harness functions (each with its own integer theory, stubs, package inits, parameters).
// The SSA is rebuilt from the current source tree on every invocation.
package main

import (
	"encoding/json"
	"fmt"
	"go/types"
	"os"
	"runtime/debug"
	"sort"
	"strings"
	"time"

	"golang.org/x/tools/go/packages"
	"golang.org/x/tools/go/ssa"
	"golang.org/x/tools/go/ssa/ssautil"
)

var errType types.Type

func typeByteArray(n int) types.Type { return types.NewArray(types.Typ[types.Uint8], int64(n)) }

type Known struct {
	Obligation string `json:"obligation"` // substring of the obligation message
	Region     string `json:"region"`     // region name declared by the harness with sym.Region
	What       string `json:"what"`
}

type HarnessSpec struct {
	Func           string            `json:"func"`
	Ints           string            `json:"ints"` // "bv" (default) or "int"
	Stubs          map[string]string `json:"stubs"`
	Inits          []string          `json:"inits"`
	MaxLoop        int               `json:"maxloop"`
	MustEncode     []string          `json:"must_encode"`
	MustReach      []string          `json:"must_reach"`
	Params         map[string]int    `json:"params"`
	TimeoutMs      int               `json:"timeout_ms"`
	MaxPaths       int               `json:"max_paths"`
	Samples        int               `json:"samples"`
	Known          []Known           `json:"known"`
	MakeSliceMax   int               `json:"makeslice_max"`
	InjectFailures bool              `json:"inject_failures"`
	MaxSeconds     int               `json:"max_seconds"`
	Natural        bool              `json:"natural_models"`
	FPPrecise      bool              `json:"fp_precise"`
	Preempt        bool              `json:"preempt_sends"`
}

type Job struct {
	Dir       string            `json:"dir"`
	Pkg       string            `json:"pkg"`
	Overlay   map[string]string `json:"overlay"` // virtual path -> real file
	Solver    []string          `json:"solver"`  // e.g. ["z3","-in"]
	Harnesses []HarnessSpec     `json:"harnesses"`
	Seed      int64             `json:"seed"`
	SrcPkgs   []string          `json:"src_pkgs"`
}

type FindingOut struct {
	Kind   string            `json:"kind"`
	Msg    string            `json:"msg"`
	Model  map[string]string `json:"model"`
	Region string            `json:"region,omitempty"` // non-empty: inside a listed known-finding region
	What   string            `json:"what,omitempty"`
	Params map[string]int    `json:"params,omitempty"`
	Fn     string            `json:"fn,omitempty"`
}

type SampleOut struct {
	Model map[string]string `json:"model"`
	Obs   map[string]string `json:"obs,omitempty"`
	End   string            `json:"end,omitempty"`
}

type HarnessResult struct {
	Func           string            `json:"func"`
	Params         map[string]int    `json:"params,omitempty"`
	Ints           string            `json:"ints"`
	Status         string            `json:"status"` // ok | findings | inconclusive
	Inconclusive   string            `json:"inconclusive,omitempty"`
	Paths          int               `json:"paths"`
	Branches       int               `json:"branches"`
	Queries        int               `json:"queries"`
	SolverS        float64           `json:"solver_s"`
	ExploreS       float64           `json:"explore_s"`
	Obligations    int               `json:"obligations"`
	Discharged     int               `json:"discharged"`
	Folded         int               `json:"folded"`
	Reached        []string          `json:"reached"`
	Encoded        map[string]int    `json:"encoded"`
	Unwound        []string          `json:"unwound,omitempty"`
	Blocked        int               `json:"blocked"`
	Findings       []FindingOut      `json:"findings"`
	KnownHits      []FindingOut      `json:"known_hits"`
	KnownGone      []Known           `json:"known_gone,omitempty"`
	Samples        []SampleOut       `json:"samples"`
	MaxLoop        int               `json:"maxloop"`
	Stubs          map[string]string `json:"stubs,omitempty"`
	ObligationMsgs []string          `json:"obligation_msgs,omitempty"`
}

type Result struct {
	LoadS     float64         `json:"load_s"`
	Harnesses []HarnessResult `json:"harnesses"`
	Error     string          `json:"error,omitempty"`
}

func main() {
	if len(os.Args) < 3 {
		fmt.Println("usage: gosx job.json result.json")
		os.Exit(2)
	}
	jb, err := os.ReadFile(os.Args[1])
	if err != nil {
		panic(err)
	}
	var job Job
	if err := json.Unmarshal(jb, &job); err != nil {
		panic(err)
	}
	res := Result{}
	writeOut := func() {
		b, _ := json.MarshalIndent(res, "", " ")
		os.WriteFile(os.Args[2], b, 0o644)
	}
	t0 := time.Now()
	overlay := map[string][]byte{}
	for virt, real := range job.Overlay {
		b, err := os.ReadFile(real)
		if err != nil {
			panic(err)
		}
		overlay[virt] = b
	}
	mode := packages.LoadAllSyntax
	pats := []string{job.Pkg}
	if len(job.SrcPkgs) > 0 {
		// only the harness package and the listed packages are loaded from source (and get
		// SSA bodies); everything else comes from compiler export data
		mode = packages.NeedName | packages.NeedFiles | packages.NeedCompiledGoFiles | packages.NeedImports |
			packages.NeedTypes | packages.NeedTypesSizes | packages.NeedSyntax | packages.NeedTypesInfo | packages.NeedModule | packages.NeedExportFile
		pats = append(pats, job.SrcPkgs...)
	}
	cfg := &packages.Config{Mode: mode, Dir: job.Dir, Overlay: overlay,
		Env: append(os.Environ(), "GOFLAGS=-mod=mod", "GOPROXY=off", "GOSUMDB=off")}
	pkgs, err := packages.Load(cfg, pats...)
	if err != nil {
		res.Error = "load: " + err.Error()
		writeOut()
		os.Exit(2)
	}
	if n := packages.PrintErrors(pkgs); n > 0 {
		res.Error = fmt.Sprintf("load: %d package errors", n)
		writeOut()
		os.Exit(2)
	}
	var prog *ssa.Program
	var spkgs []*ssa.Package
	if len(job.SrcPkgs) == 0 {
		prog, spkgs = ssautil.AllPackages(pkgs, ssa.InstantiateGenerics)
	} else {
		prog = ssa.NewProgram(pkgs[0].Fset, ssa.InstantiateGenerics)
		for _, p := range pkgs {
			spkgs = append(spkgs, prog.CreatePackage(p.Types, p.Syntax, p.TypesInfo, true))
		}
		seen := map[*types.Package]bool{}
		var visit func(tp *types.Package)
		visit = func(tp *types.Package) {
			if seen[tp] {
				return
			}
			seen[tp] = true
			if prog.Package(tp) == nil {
				prog.CreatePackage(tp, nil, nil, true)
			}
			for _, ip := range tp.Imports() {
				visit(ip)
			}
		}
		for _, p := range pkgs {
			visit(p.Types)
		}
	}
	prog.Build()
	errType = types.Universe.Lookup("error").Type()
	for _, p := range prog.AllPackages() {
		if p.Pkg.Path() == "time" {
			timeType = p.Pkg.Scope().Lookup("Time").Type()
		}
	}
	res.LoadS = time.Since(t0).Seconds()
	var allFns map[string]*ssa.Function
	fnByName := func(name string) *ssa.Function {
		if allFns == nil {
			allFns = map[string]*ssa.Function{}
			for f := range ssautil.AllFunctions(prog) {
				allFns[f.String()] = f
			}
		}
		return allFns[name]
	}
	solverCmd := job.Solver
	if len(solverCmd) == 0 {
		solverCmd = []string{"z3", "-in"}
	}
	exit := 0
	for _, hs := range job.Harnesses {
		var fn *ssa.Function
		for _, sp := range spkgs {
			if sp != nil {
				if f := sp.Func(hs.Func); f != nil {
					fn = f
				}
			}
		}
		hr := HarnessResult{Func: hs.Func, Params: hs.Params, Ints: hs.Ints, Stubs: hs.Stubs}
		if fn == nil {
			hr.Status = "inconclusive"
			hr.Inconclusive = "harness function not found"
			res.Harnesses = append(res.Harnesses, hr)
			exit = 2
			continue
		}
		runHarness(prog, fn, hs, &hr, solverCmd, fnByName, job.Seed)
		if hr.Status == "inconclusive" {
			exit = 2
		}
		res.Harnesses = append(res.Harnesses, hr)
		writeOut()
	}
	writeOut()
	os.Exit(exit)
}

func runHarness(prog *ssa.Program, fn *ssa.Function, hs HarnessSpec, hr *HarnessResult, solverCmd []string,
	fnByName func(string) *ssa.Function, seed int64) {
	intMode = hs.Ints == "int"
	if hs.Ints == "" {
		hr.Ints = "bv"
	}
	tmo := hs.TimeoutMs
	if tmo == 0 {
		tmo = 10000
	}
	sol := NewSolver(tmo, solverCmd[0], solverCmd[1:]...)
	defer sol.Close()
	if os.Getenv("SMTLOG") != "" {
		f, _ := os.Create(os.Getenv("SMTLOG"))
		sol.log = f
	}
	e := &Exec{prog: prog, sol: sol, symSeen: map[string]bool{}, seenFind: map[string]bool{}, executed: map[string]int{},
		stubs: map[string]*ssa.Function{}, maxLoop: 70, reached: map[string]bool{}, trace: os.Getenv("TRACE") != "",
		params: hs.Params, known: hs.Known, knownHit: map[string]bool{}, oblMsgs: map[string]bool{},
		maxPaths: hs.MaxPaths, nSamples: hs.Samples, makeSliceMax: 8, builtinStubs: map[string]string{}}
	e.injectFailures = hs.InjectFailures
	e.natural = hs.Natural
	e.fpPrecise = hs.FPPrecise
	e.preempt = hs.Preempt
	if hs.MaxSeconds > 0 {
		e.deadline = time.Now().Add(time.Duration(hs.MaxSeconds) * time.Second)
	}
	if hs.MakeSliceMax > 0 {
		e.makeSliceMax = hs.MakeSliceMax
	}
	if hs.MaxLoop > 0 {
		e.maxLoop = hs.MaxLoop
	}
	hr.MaxLoop = e.maxLoop
	resetWorld()
	for from, to := range hs.Stubs {
		if fnByName(from) == nil {
			hr.Status, hr.Inconclusive = "inconclusive", "stub source not found (encoding drift): "+from
			return
		}
		if strings.HasPrefix(to, "@") {
			e.builtinStubs[from] = to
			continue
		}
		t := fnByName(to)
		if t == nil {
			hr.Status, hr.Inconclusive = "inconclusive", "stub target not found: "+to
			return
		}
		e.stubs[from] = t
	}
	e.initPkgs = map[string]bool{}
	e.initStored = map[*ssa.Global]bool{}
	e.poisoned = map[*ssa.Global]string{}
	t1 := time.Now()
	var abort string
	func() {
		defer func() {
			if r := recover(); r != nil {
				abort = fmt.Sprint(r)
				if os.Getenv("STACK") != "" {
					debug.PrintStack()
				}
			}
		}()
		inits := append([]string{}, hs.Inits...)
		if fn.Pkg != nil { // the harness package's own initialiser always runs (last)
			inits = append(inits, fn.Pkg.Pkg.Path())
		}
		if len(inits) > 0 {
			for _, p := range inits {
				e.initPkgs[p] = true
			}
			sol.Push()
			e.runInits(inits)
			sol.Pop()
		}
		e.Explore(fn)
	}()
	hr.ExploreS = time.Since(t1).Seconds()
	hr.Paths, hr.Branches, hr.Queries, hr.SolverS = e.paths, e.branches, sol.Queries, sol.Time.Seconds()
	hr.Obligations, hr.Discharged, hr.Folded = e.nObl, e.nDischarged, e.nTrivial
	hr.Blocked = e.blocked
	for k := range e.reached {
		hr.Reached = append(hr.Reached, k)
	}
	sort.Strings(hr.Reached)
	hr.Encoded = map[string]int{}
	for f, n := range e.executed {
		if strings.Contains(f, "gouroboros") {
			hr.Encoded[f] = n
		}
	}
	for m := range e.oblMsgs {
		hr.ObligationMsgs = append(hr.ObligationMsgs, m)
	}
	sort.Strings(hr.ObligationMsgs)
	hr.Unwound = e.unwound
	hr.Samples = e.samples
	for _, f := range e.findings {
		fo := FindingOut{Kind: f.Kind, Msg: f.Msg, Model: f.Model, Region: f.Region, What: f.What, Params: hs.Params, Fn: hs.Func}
		if f.Region != "" {
			hr.KnownHits = append(hr.KnownHits, fo)
		} else {
			hr.Findings = append(hr.Findings, fo)
		}
	}
	for _, k := range hs.Known {
		if !e.knownHit[k.Region+"|"+k.Obligation] {
			hr.KnownGone = append(hr.KnownGone, k)
		}
	}
	switch {
	case abort != "":
		hr.Status, hr.Inconclusive = "inconclusive", "abort: "+abort
	case len(e.unwound) > 0:
		hr.Status, hr.Inconclusive = "inconclusive", "unwinding/bound failure: "+strings.Join(uniq(e.unwound), "; ")
	case e.truncated:
		hr.Status, hr.Inconclusive = "inconclusive", fmt.Sprintf("path budget %d exhausted", e.maxPaths)
		if e.timedOut {
			hr.Inconclusive = fmt.Sprintf("time budget %ds exhausted after %d paths", hs.MaxSeconds, e.paths)
		}
	}
	if hr.Status == "" {
		for _, m := range hs.MustEncode {
			if e.executed[m] == 0 {
				hr.Status, hr.Inconclusive = "inconclusive", "encoding drift: "+m+" was not executed"
			}
		}
		for _, m := range hs.MustReach {
			if !e.reached[m] {
				hr.Status, hr.Inconclusive = "inconclusive", "vacuous: witness "+m+" not reached"
			}
		}
	}
	if hr.Status == "" {
		if len(hr.Findings) > 0 {
			hr.Status = "findings"
		} else {
			hr.Status = "ok"
		}
	}
}

func uniq(in []string) []string {
	seen := map[string]bool{}
	var out []string
	for _, s := range in {
		if !seen[s] {
			seen[s] = true
			out = append(out, s)
		}
	}
	return out
}
