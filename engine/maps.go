package main

import (
	"go/types"

	"golang.org/x/tools/go/ssa"
)

func (e *Exec) mapFind(m *MapObj, k Value) int {
	for i, mk := range m.Keys {
		if e.decide(e.deepEq(mk, k)) {
			return i
		}
	}
	return -1
}

func (e *Exec) mapUpdate(mv Value, k, v Value) {
	m := mv.(VMap).M
	if m == nil {
		e.oblige(BoolC(false), "panic", "assignment to entry in nil map")
	}
	if i := e.mapFind(m, k); i >= 0 {
		m.Vals[i].V = v
		return
	}
	m.Keys = append(m.Keys, k)
	m.Vals = append(m.Vals, &Cell{V: v})
}

func (e *Exec) mapDelete(mv Value, k Value) {
	m := mv.(VMap).M
	if m == nil {
		return
	}
	if i := e.mapFind(m, k); i >= 0 {
		m.Keys = append(append([]Value{}, m.Keys[:i]...), m.Keys[i+1:]...)
		m.Vals = append(append([]*Cell{}, m.Vals[:i]...), m.Vals[i+1:]...)
	}
}

func (e *Exec) lookup(fr *frame, in *ssa.Lookup) Value {
	x := e.val(fr, in.X)
	k := e.val(fr, in.Index)
	if s, ok := x.(VStr); ok {
		t := k.(VInt).T
		if !t.Const {
			e.fail("symbolic string index")
		}
		return VInt{byteC(uint64(s.S[t.U.Int64()]))}
	}
	m := x.(VMap).M
	elemT := in.X.Type().Underlying().(*types.Map).Elem()
	var res Value
	found := false
	if m != nil {
		if i := e.mapFind(m, k); i >= 0 {
			res, found = m.Vals[i].V, true
		}
	}
	if !found {
		res = zero(elemT)
	}
	if in.CommaOk {
		return VTuple{[]Value{res, VBool{BoolC(found)}}}
	}
	return res
}

type rangeIter struct {
	m    *MapObj
	keys []Value
	vals []Value
	pos  int
	str  string
}

func (e *Exec) rangeStart(x Value) Value {
	switch x := x.(type) {
	case VMap:
		it := &rangeIter{m: x.M}
		if x.M != nil {
			it.keys = append(it.keys, x.M.Keys...)
			for _, c := range x.M.Vals {
				it.vals = append(it.vals, c.V)
			}
		}
		return it
	case VStr:
		return &rangeIter{str: x.S}
	}
	e.fail("range over %T", x)
	return nil
}

func (e *Exec) rangeNext(fr *frame, in *ssa.Next) Value {
	it := e.val(fr, in.Iter).(*rangeIter)
	tt := in.Type().(*types.Tuple)
	if in.IsString {
		e.fail("range over string")
	}
	// skip entries deleted during iteration
	for it.pos < len(it.keys) {
		k := it.keys[it.pos]
		it.pos++
		still := false
		var cur Value
		for i, mk := range it.m.Keys {
			if e.deepEq(mk, k).Const && e.deepEq(mk, k).B {
				still, cur = true, it.m.Vals[i].V
			}
		}
		if !still {
			continue
		}
		return VTuple{[]Value{VBool{BoolC(true)}, k, cur}}
	}
	var zk, zv Value = VOpaque{"k"}, VOpaque{"v"}
	if tt.At(1).Type() != nil {
		if _, ok := tt.At(1).Type().(*types.Basic); !ok || tt.At(1).Type().(*types.Basic).Kind() != types.Invalid {
			zk = zero(tt.At(1).Type())
		}
	}
	if tt.At(2).Type() != nil {
		if _, ok := tt.At(2).Type().(*types.Basic); !ok || tt.At(2).Type().(*types.Basic).Kind() != types.Invalid {
			zv = zero(tt.At(2).Type())
		}
	}
	return VTuple{[]Value{VBool{BoolC(false)}, zk, zv}}
}
