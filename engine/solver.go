package main

import (
	"bufio"
	"fmt"
	"io"
	"math/big"
	"os/exec"
	"strings"
	"time"
)

type Solver struct {
	cmd     *exec.Cmd
	in      io.WriteCloser
	out     *bufio.Reader
	decls   map[string]string // name -> sort string
	Queries int
	Time    time.Duration
	log     io.Writer
	scopes  [][]string
	Unknown int
}

func NewSolver(timeoutMs int, bin string, args ...string) *Solver {
	cmd := exec.Command(bin, args...)
	in, _ := cmd.StdinPipe()
	outp, _ := cmd.StdoutPipe()
	cmd.Stderr = cmd.Stdout
	if err := cmd.Start(); err != nil {
		panic(err)
	}
	s := &Solver{cmd: cmd, in: in, out: bufio.NewReaderSize(outp, 1<<20), decls: map[string]string{}}
	s.send("(set-option :produce-models true)")
	if strings.Contains(bin, "cvc5") {
		s.send("(set-logic ALL)")
	} else {
		s.send(fmt.Sprintf("(set-option :timeout %d)", timeoutMs))
	}
	return s
}

func (s *Solver) send(line string) {
	if s.log != nil {
		fmt.Fprintln(s.log, line)
	}
	io.WriteString(s.in, line+"\n")
}

func sortStr(sort int) string {
	switch {
	case sort == SBool:
		return "Bool"
	case sort == SInt:
		return "Int"
	case sort == SReal:
		return "Real"
	case sort == SFP:
		return "(_ FloatingPoint 11 53)"
	default:
		return fmt.Sprintf("(_ BitVec %d)", sort)
	}
}

// Declare declares a constant in the current scope (z3 forgets declarations made inside a
// scope when it is popped, so they are forgotten here too and re-declared on the next path).
// It reports whether the name was newly declared.
func (s *Solver) Declare(name string, sort int) bool {
	if _, ok := s.decls[name]; ok {
		return false
	}
	s.decls[name] = sortStr(sort)
	if len(s.scopes) > 0 {
		s.scopes[len(s.scopes)-1] = append(s.scopes[len(s.scopes)-1], name)
	}
	s.send(fmt.Sprintf("(declare-const %s %s)", name, sortStr(sort)))
	return true
}

func (s *Solver) DeclareFun(name, sig string) {
	if _, ok := s.decls[name]; ok {
		return
	}
	s.decls[name] = sig
	if len(s.scopes) > 0 {
		s.scopes[len(s.scopes)-1] = append(s.scopes[len(s.scopes)-1], name)
	}
	s.send(fmt.Sprintf("(declare-fun %s %s)", name, sig))
}

func (s *Solver) Push() { s.scopes = append(s.scopes, nil); s.send("(push 1)") }
func (s *Solver) Pop() {
	top := s.scopes[len(s.scopes)-1]
	s.scopes = s.scopes[:len(s.scopes)-1]
	for _, n := range top {
		delete(s.decls, n)
	}
	s.send("(pop 1)")
}
func (s *Solver) Assert(t Term) { s.send("(assert " + t.S + ")") }

func (s *Solver) Check() string {
	t0 := time.Now()
	s.send("(check-sat)")
	var line string
	var err error
	for {
		line, err = s.out.ReadString('\n')
		if err != nil {
			break
		}
		line = strings.TrimSpace(line)
		if line != "" {
			break
		}
	}
	s.Queries++
	s.Time += time.Since(t0)
	if err != nil {
		return "error: " + err.Error()
	}
	if strings.HasPrefix(line, "(error") {
		return "error: " + line
	}
	if line == "unknown" || line == "timeout" {
		s.Unknown++
	}
	return line
}

// GetValues returns canonical value strings: decimal for Int and bit-vectors (unsigned),
// true/false for Bool.
func (s *Solver) GetValues(names []string) map[string]string {
	res := map[string]string{}
	for _, n := range names {
		if _, ok := s.decls[n]; !ok {
			continue
		}
		s.send("(get-value (" + n + "))")
		depth := 0
		var sb strings.Builder
		for {
			r, _, err := s.out.ReadRune()
			if err != nil {
				break
			}
			if depth == 0 && r != '(' {
				continue
			}
			sb.WriteRune(r)
			if r == '(' {
				depth++
			}
			if r == ')' {
				depth--
				if depth == 0 {
					break
				}
			}
		}
		v := strings.TrimSpace(sb.String())
		if strings.HasPrefix(v, "(error") {
			continue
		}
		// ((name value))
		v = strings.TrimPrefix(v, "(("+n)
		v = strings.TrimSuffix(v, "))")
		res[n] = canonValue(strings.TrimSpace(v))
	}
	return res
}

func canonValue(v string) string {
	switch {
	case strings.HasPrefix(v, "#x"):
		b, ok := new(big.Int).SetString(v[2:], 16)
		if ok {
			return b.String()
		}
	case strings.HasPrefix(v, "#b"):
		b, ok := new(big.Int).SetString(v[2:], 2)
		if ok {
			return b.String()
		}
	case strings.HasPrefix(v, "(- "):
		return "-" + strings.TrimSpace(strings.TrimSuffix(v[3:], ")"))
	case strings.HasPrefix(v, "(_ bv"):
		f := strings.Fields(v[5:])
		if len(f) > 0 {
			return f[0]
		}
	}
	return v
}

func (s *Solver) Close() { s.send("(exit)"); s.in.Close(); s.cmd.Wait() }
