package main

import (
	"fmt"
	"math/big"
	"strings"
)

// Sort: >0 = bitvector width, SBool, SInt
const (
	SBool = -1
	SInt  = -2
	SReal = -3
	SFP   = -4 // IEEE-754 binary64 (only in fp_precise mode)
)

type Term struct {
	S     string
	Sort  int
	Const bool
	U     *big.Int // value for BV/Int constants
	B     bool
}

var two = big.NewInt(2)

func mask(w int) *big.Int {
	m := new(big.Int).Lsh(big.NewInt(1), uint(w))
	return m.Sub(m, big.NewInt(1))
}

func BV(w int, v *big.Int) Term {
	x := new(big.Int).And(v, mask(w))
	return Term{S: fmt.Sprintf("(_ bv%s %d)", x.String(), w), Sort: w, Const: true, U: x}
}
func BVu(w int, v uint64) Term { return BV(w, new(big.Int).SetUint64(v)) }
func IntC(v *big.Int) Term {
	s := v.String()
	if v.Sign() < 0 {
		s = "(- " + new(big.Int).Neg(v).String() + ")"
	}
	return Term{S: s, Sort: SInt, Const: true, U: new(big.Int).Set(v)}
}
func BoolC(b bool) Term {
	if b {
		return Term{S: "true", Sort: SBool, Const: true, B: true}
	}
	return Term{S: "false", Sort: SBool, Const: true, B: false}
}
func app(sort int, op string, args ...Term) Term {
	var sb strings.Builder
	sb.WriteString("(")
	sb.WriteString(op)
	for _, a := range args {
		sb.WriteString(" ")
		sb.WriteString(a.S)
	}
	sb.WriteString(")")
	return Term{S: sb.String(), Sort: sort}
}

func signedVal(w int, u *big.Int) *big.Int {
	if u.Bit(w-1) == 1 {
		return new(big.Int).Sub(u, new(big.Int).Lsh(big.NewInt(1), uint(w)))
	}
	return new(big.Int).Set(u)
}

func Not(a Term) Term {
	if a.Const {
		return BoolC(!a.B)
	}
	if strings.HasPrefix(a.S, "(not ") {
		return Term{S: a.S[5 : len(a.S)-1], Sort: SBool}
	}
	return app(SBool, "not", a)
}
func And(a, b Term) Term {
	if a.Const {
		if a.B {
			return b
		}
		return a
	}
	if b.Const {
		if b.B {
			return a
		}
		return b
	}
	return app(SBool, "and", a, b)
}
func Or(a, b Term) Term { return Not(And(Not(a), Not(b))) }
func Eq(a, b Term) Term {
	if a.Const && b.Const {
		if a.Sort == SBool {
			return BoolC(a.B == b.B)
		}
		return BoolC(a.U.Cmp(b.U) == 0)
	}
	if a.S == b.S {
		return BoolC(true)
	}
	return app(SBool, "=", a, b)
}
func Ite(c, a, b Term) Term {
	if c.Const {
		if c.B {
			return a
		}
		return b
	}
	if a.S == b.S {
		return a
	}
	return app(a.Sort, "ite", c, a, b)
}

// BV binary op with Go semantics. signed selects signed variants.
func BVBin(op string, a, b Term, signed bool) Term {
	w := a.Sort
	if a.Const && b.Const {
		x, y := a.U, b.U
		sx, sy := x, y
		if signed {
			sx, sy = signedVal(w, x), signedVal(w, y)
		}
		switch op {
		case "+":
			return BV(w, new(big.Int).Add(x, y))
		case "-":
			return BV(w, new(big.Int).Sub(x, y))
		case "*":
			return BV(w, new(big.Int).Mul(x, y))
		case "&":
			return BV(w, new(big.Int).And(x, y))
		case "|":
			return BV(w, new(big.Int).Or(x, y))
		case "^":
			return BV(w, new(big.Int).Xor(x, y))
		case "&^":
			return BV(w, new(big.Int).AndNot(x, y))
		case "/":
			if y.Sign() != 0 {
				return BV(w, new(big.Int).Quo(sx, sy))
			}
		case "%":
			if y.Sign() != 0 {
				return BV(w, new(big.Int).Rem(sx, sy))
			}
		case "==":
			return BoolC(x.Cmp(y) == 0)
		case "!=":
			return BoolC(x.Cmp(y) != 0)
		case "<":
			return BoolC(sx.Cmp(sy) < 0)
		case "<=":
			return BoolC(sx.Cmp(sy) <= 0)
		case ">":
			return BoolC(sx.Cmp(sy) > 0)
		case ">=":
			return BoolC(sx.Cmp(sy) >= 0)
		}
	}
	switch op {
	case "+":
		return app(w, "bvadd", a, b)
	case "-":
		return app(w, "bvsub", a, b)
	case "*":
		return app(w, "bvmul", a, b)
	case "&":
		return app(w, "bvand", a, b)
	case "|":
		return app(w, "bvor", a, b)
	case "^":
		return app(w, "bvxor", a, b)
	case "&^":
		return app(w, "bvand", a, app(w, "bvnot", b))
	case "/":
		if signed {
			return app(w, "bvsdiv", a, b)
		}
		return app(w, "bvudiv", a, b)
	case "%":
		if signed {
			return app(w, "bvsrem", a, b)
		}
		return app(w, "bvurem", a, b)
	case "==":
		return Eq(a, b)
	case "!=":
		return Not(Eq(a, b))
	case "<":
		if signed {
			return app(SBool, "bvslt", a, b)
		}
		return app(SBool, "bvult", a, b)
	case "<=":
		if signed {
			return app(SBool, "bvsle", a, b)
		}
		return app(SBool, "bvule", a, b)
	case ">":
		if signed {
			return app(SBool, "bvsgt", a, b)
		}
		return app(SBool, "bvugt", a, b)
	case ">=":
		if signed {
			return app(SBool, "bvsge", a, b)
		}
		return app(SBool, "bvuge", a, b)
	}
	panic("BVBin: unsupported op " + op)
}

// shift with Go semantics; b is an unsigned BV of any width
func BVShift(op string, a, b Term, signed bool) Term {
	w := a.Sort
	if b.Const {
		n := b.U
		if a.Const {
			if n.Cmp(big.NewInt(int64(w))) >= 0 {
				if op == ">>" && signed && a.U.Bit(w-1) == 1 {
					return BV(w, mask(w))
				}
				return BVu(w, 0)
			}
			k := uint(n.Uint64())
			if op == "<<" {
				return BV(w, new(big.Int).Lsh(a.U, k))
			}
			if signed {
				return BV(w, new(big.Int).Rsh(signedVal(w, a.U), k))
			}
			return BV(w, new(big.Int).Rsh(a.U, k))
		}
	}
	bb := Resize(b, w, false)
	// Go: shift count >= width gives 0 (or sign fill); SMT bvshl/bvlshr/bvashr have the same semantics
	// provided the count is compared at full width; if b wider than w and truncated, guard
	var r Term
	switch op {
	case "<<":
		r = app(w, "bvshl", a, bb)
	case ">>":
		if signed {
			r = app(w, "bvashr", a, bb)
		} else {
			r = app(w, "bvlshr", a, bb)
		}
	}
	if b.Sort > w {
		big_ := app(SBool, "bvuge", b, BVu(b.Sort, uint64(w)))
		var over Term
		if op == ">>" && signed {
			over = app(w, "bvashr", a, BVu(w, uint64(w-1)))
		} else {
			over = BVu(w, 0)
		}
		r = Ite(big_, over, r)
	}
	return r
}

func Resize(a Term, w int, signed bool) Term {
	if a.Sort == w {
		return a
	}
	if a.Const {
		if a.Sort < w && signed {
			return BV(w, signedVal(a.Sort, a.U))
		}
		return BV(w, a.U)
	}
	if a.Sort > w {
		return app(w, fmt.Sprintf("(_ extract %d 0)", w-1), a)
	}
	if signed {
		return app(w, fmt.Sprintf("(_ sign_extend %d)", w-a.Sort), a)
	}
	return app(w, fmt.Sprintf("(_ zero_extend %d)", w-a.Sort), a)
}

func IntBin(op string, a, b Term) Term {
	if a.Const && b.Const {
		switch op {
		case "+":
			return IntC(new(big.Int).Add(a.U, b.U))
		case "-":
			return IntC(new(big.Int).Sub(a.U, b.U))
		case "*":
			return IntC(new(big.Int).Mul(a.U, b.U))
		}
	}
	return app(SInt, op, a, b)
}
func IntCmp(op string, a, b Term) Term {
	if a.Const && b.Const {
		c := a.U.Cmp(b.U)
		switch op {
		case "<":
			return BoolC(c < 0)
		case "<=":
			return BoolC(c <= 0)
		case ">":
			return BoolC(c > 0)
		case ">=":
			return BoolC(c >= 0)
		case "=":
			return BoolC(c == 0)
		}
	}
	return app(SBool, op, a, b)
}
func BV2Int(a Term, signed bool) Term {
	if a.Const {
		if signed {
			return IntC(signedVal(a.Sort, a.U))
		}
		return IntC(a.U)
	}
	u := app(SInt, "bv2nat", a)
	if !signed {
		return u
	}
	half := IntC(new(big.Int).Lsh(big.NewInt(1), uint(a.Sort-1)))
	full := IntC(new(big.Int).Lsh(big.NewInt(1), uint(a.Sort)))
	return Ite(IntCmp(">=", u, half), IntBin("-", u, full), u)
}
func Int2BV(a Term, w int) Term {
	if a.Const {
		m := new(big.Int).Mod(a.U, new(big.Int).Lsh(big.NewInt(1), uint(w)))
		return BV(w, m)
	}
	return app(w, fmt.Sprintf("(_ int2bv %d)", w), a)
}
