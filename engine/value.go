package main

import (
	"fmt"
	"go/types"

	"golang.org/x/tools/go/ssa"
)

type Value interface{}

type VInt struct {
	T Term
}
type VBool struct{ T Term }
type VBig struct{ T Term } // mathematical integer (content of a big.Int)
type VStr struct{ S string }
type VFloat struct{ T Term } // fp_precise mode only

// VSymStr is a string converted from bytes that are not all concrete (usable as a map key,
// comparable, measurable; anything else is unsupported).
type VSymStr struct{ E []Value }
type VPtr struct{ C *Cell } // C == nil => nil pointer
type VElemPtr struct {      // pointer to arr[idx] with symbolic idx (scalar elements only)
	Arr *Cell
	Off int
	Len int
	Idx Term // 64-bit
}
type VStruct struct{ F []Value }
type VArray struct{ E []Value }
type VSlice struct {
	Arr           *Cell // nil => nil slice
	Off, Len, Cap int
}
type VIface struct {
	Typ types.Type // nil => nil interface
	Val Value
}
type VFunc struct {
	Fn       *ssa.Function
	Bindings []Value
}
type VTuple struct{ E []Value }
type VMap struct{ M *MapObj }
type MapObj struct {
	Keys []Value
	Vals []*Cell
}
type VOpaque struct{ Why string }

type Cell struct {
	V      Value
	Fields []*Cell
	Elems  []*Cell
	Typ    types.Type
}

func isBigInt(t types.Type) bool {
	n, ok := t.(*types.Named)
	return ok && n.Obj().Pkg() != nil && n.Obj().Pkg().Path() == "math/big" && n.Obj().Name() == "Int"
}

func intWidth(b *types.Basic) (int, bool) {
	switch b.Kind() {
	case types.Int8:
		return 8, true
	case types.Uint8:
		return 8, false
	case types.Int16:
		return 16, true
	case types.Uint16:
		return 16, false
	case types.Int32:
		return 32, true
	case types.Uint32:
		return 32, false
	case types.Int64, types.Int, types.UntypedInt:
		return 64, true
	case types.Uint64, types.Uint, types.Uintptr:
		return 64, false
	case types.UntypedRune:
		return 32, true
	}
	return 0, false
}

func zero(t types.Type) Value {
	if isBigInt(t) {
		return VBig{IntC(bigZero())}
	}
	switch u := t.Underlying().(type) {
	case *types.Basic:
		if u.Info()&types.IsInteger != 0 {
			w, _ := intWidth(u)
			if intMode {
				return VInt{IntC(bigZero())}
			}
			return VInt{BVu(w, 0)}
		}
		if u.Info()&types.IsBoolean != 0 {
			return VBool{BoolC(false)}
		}
		if u.Info()&types.IsString != 0 {
			return VStr{""}
		}
		if u.Kind() == types.UnsafePointer {
			return VPtr{}
		}
		return VOpaque{"zero of " + u.String()}
	case *types.Pointer:
		return VPtr{}
	case *types.Slice:
		return VSlice{}
	case *types.Struct:
		f := make([]Value, u.NumFields())
		for i := range f {
			f[i] = zero(u.Field(i).Type())
		}
		return VStruct{f}
	case *types.Array:
		e := make([]Value, u.Len())
		for i := range e {
			e[i] = zero(u.Elem())
		}
		return VArray{e}
	case *types.Interface:
		return VIface{}
	case *types.Map:
		return VMap{}
	case *types.Signature:
		return VFunc{}
	case *types.Chan:
		return VChan{}
	}
	return VOpaque{fmt.Sprintf("zero of %v", t)}
}

func newCell(t types.Type) *Cell {
	c := &Cell{Typ: t}
	if isBigInt(t) {
		c.V = VBig{IntC(bigZero())}
		return c
	}
	switch u := t.Underlying().(type) {
	case *types.Struct:
		c.Fields = make([]*Cell, u.NumFields())
		for i := range c.Fields {
			c.Fields[i] = newCell(u.Field(i).Type())
		}
	case *types.Array:
		c.Elems = make([]*Cell, u.Len())
		for i := range c.Elems {
			c.Elems[i] = newCell(u.Elem())
		}
	default:
		c.V = zero(t)
	}
	return c
}

func load(c *Cell) Value {
	if c.Fields != nil {
		f := make([]Value, len(c.Fields))
		for i, fc := range c.Fields {
			f[i] = load(fc)
		}
		return VStruct{f}
	}
	if c.Elems != nil {
		e := make([]Value, len(c.Elems))
		for i, ec := range c.Elems {
			e[i] = load(ec)
		}
		return VArray{e}
	}
	if c.V == nil { // empty struct / zero-length array
		if _, ok := c.Typ.Underlying().(*types.Struct); ok {
			return VStruct{}
		}
		if _, ok := c.Typ.Underlying().(*types.Array); ok {
			return VArray{}
		}
	}
	return c.V
}

func store(c *Cell, v Value) {
	if c.Fields != nil {
		s, ok := v.(VStruct)
		if !ok {
			panic(fmt.Sprintf("store struct: got %T into %v", v, c.Typ))
		}
		for i, fc := range c.Fields {
			store(fc, s.F[i])
		}
		return
	}
	if c.Elems != nil {
		a := v.(VArray)
		for i, ec := range c.Elems {
			store(ec, a.E[i])
		}
		return
	}
	c.V = v
}
