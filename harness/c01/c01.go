// Package c01: decoded objects keep their exact wire bytes (store, re-serialise, identify).
// The extraction of component bytes from a block is checked in package c07 (ExtractCbor).
package c01

import (
	"bytes"

	"verifharness/sym"

	"github.com/blinklabs-io/gouroboros/cbor"
	"github.com/blinklabs-io/gouroboros/ledger/allegra"
	"github.com/blinklabs-io/gouroboros/ledger/alonzo"
	"github.com/blinklabs-io/gouroboros/ledger/babbage"
	"github.com/blinklabs-io/gouroboros/ledger/common"
	"github.com/blinklabs-io/gouroboros/ledger/conway"
	"github.com/blinklabs-io/gouroboros/ledger/dijkstra"
	"github.com/blinklabs-io/gouroboros/ledger/mary"
	"github.com/blinklabs-io/gouroboros/ledger/shelley"
)

var Registry = map[string]func(){
	"Store":    Store,
	"Reserial": Reserial,
	"Identity": Identity,
}

// Store: SetCbor keeps a private copy (later changes to the caller's buffer do not show),
// SetCbor(nil) clears, SetCborReference keeps exactly the given bytes.
func Store() {
	var d cbor.DecodeStoreCbor
	x := sym.Bytes("x", sym.Param("len"))
	orig := append([]byte{}, x...)
	d.SetCbor(x)
	for i := range x {
		x[i] ^= 0xff
	}
	sym.Reach("decided")
	sym.Assert(bytes.Equal(d.Cbor(), orig), "stored bytes are the bytes given, unaffected by later changes to the caller's buffer")
	d.SetCbor(nil)
	sym.Assert(d.Cbor() == nil, "SetCbor(nil) clears the stored bytes")
	y := sym.Bytes("y", 2)
	d.SetCborReference(y)
	sym.Assert(len(d.Cbor()) == 2 && &d.Cbor()[0] == &y[0], "SetCborReference keeps the very bytes it was given")
}

type marshaler interface{ MarshalCBOR() ([]byte, error) }
type storer interface{ SetCbor([]byte) }

func objects() []any {
	return []any{
		&shelley.ShelleyTransaction{}, &allegra.AllegraTransaction{}, &mary.MaryTransaction{}, &alonzo.AlonzoTransaction{},
		&babbage.BabbageTransaction{}, &conway.ConwayTransaction{}, &dijkstra.DijkstraTransaction{},
		&shelley.ShelleyBlock{}, &allegra.AllegraBlock{}, &mary.MaryBlock{}, &alonzo.AlonzoBlock{}, &babbage.BabbageBlock{}, &conway.ConwayBlock{},
	}
}

// Reserial: re-serialising an object that holds stored bytes returns exactly those bytes.
func Reserial() {
	o := objects()[sym.Param("object")]
	b := sym.Bytes("stored", 5)
	o.(storer).SetCbor(b)
	out, err := o.(marshaler).MarshalCBOR()
	sym.Reach("decided")
	sym.Assert(err == nil && bytes.Equal(out, b), "re-serialising an unmodified decoded object reproduces its stored bytes")
}

// Identity: transaction ids and header hashes are the Blake2b-256 hash of the stored bytes.
func Identity() {
	b := sym.Bytes("stored", 4)
	want := common.Blake2b256Hash(b)
	sym.Reach("decided")
	switch sym.Param("object") {
	case 0:
		x := &shelley.ShelleyTransactionBody{}
		x.SetCbor(b)
		sym.Assert(x.Id() == want, "transaction id = H(stored body bytes) (Shelley)")
	case 1:
		x := &babbage.BabbageTransactionBody{}
		x.SetCbor(b)
		sym.Assert(x.Id() == want, "transaction id = H(stored body bytes) (Babbage)")
	case 2:
		x := &conway.ConwayTransactionBody{}
		x.SetCbor(b)
		sym.Assert(x.Id() == want, "transaction id = H(stored body bytes) (Conway)")
	case 3:
		x := &shelley.ShelleyBlockHeader{}
		x.SetCbor(b)
		sym.Assert(x.Hash() == want, "header hash = H(stored header bytes) (Shelley)")
	case 4:
		x := &babbage.BabbageBlockHeader{}
		x.SetCbor(b)
		sym.Assert(x.Hash() == want, "header hash = H(stored header bytes) (Babbage)")
	default:
		x := &conway.ConwayTransaction{}
		x.Body.SetCbor(b)
		sym.Assert(x.Hash() == want && x.Id() == want, "transaction hash = H(stored body bytes) (Conway transaction)")
	}
}
