// Package c02: hand-written byte-level decoders are total: for every input they return a
// value or an error -- no panic (index, slice bounds, nil dereference, failed assertion,
// division by zero), termination within the length-derived unwinding bound, and no
// allocation sized by a length claimed inside the input. These obligations are implicit:
// the executor raises them at every indexing, slicing, dereference, assertion and make().
package c02

import (
	"verifharness/ghost"
	"verifharness/sym"

	"github.com/blinklabs-io/gouroboros/cbor"
	"github.com/blinklabs-io/gouroboros/kes"
	"github.com/blinklabs-io/gouroboros/ledger/common"
	"github.com/blinklabs-io/gouroboros/muxer"
)

var Registry = map[string]func(){
	"Heads":        Heads,
	"Stream":       Stream,
	"Lists":        Lists,
	"Address":      Address,
	"Kes":          Kes,
	"Segment":      Segment,
	"Diagnostic":   Diagnostic,
	"ByronOffsets": ByronOffsets,
}

// ByronOffsets: the offset extractor on Byron-shaped blocks [header, [tx_payload, ssc, dlg,
// upd], extra] whose transaction payload holds 1..2 "pairs" of every shape a peer can send:
// definite or indefinite arrays of 0, 1 or 2 items (symbolic selectors). It returns ranges or
// an error, never panics; ranges it returns lie inside the block.
func ByronOffsets() {
	n := sym.Param("pairs")
	data := sym.Bytes("blk", 1+1+1+1+n*5+1+3+1+1)
	off := ghost.PutHead(data, 0, 4, ghost.FormImm, 3)
	off += ghost.Fixed(data, off, "hdr", 0)
	bodyStart := off
	off += ghost.PutHead(data, off, 4, ghost.FormImm, 4)
	payloadStart := off
	payloadForm := ghost.FormImm
	if sym.Bool("payload_indefinite") {
		payloadForm = ghost.FormIndef
	}
	off += ghost.PutHead(data, off, 4, payloadForm, n)
	for i := 0; i < n; i++ {
		name := "pair" + string(rune('0'+i))
		k := int(sym.U8(name + "_items"))
		sym.Assume(k <= 2)
		items := 0
		for c := 0; c <= 2; c++ { // concrete on each path
			if k == c {
				items = c
			}
		}
		form := ghost.FormImm
		if sym.Bool(name + "_indefinite") {
			form = ghost.FormIndef
		}
		r, _ := ghost.PutLeafArray(data, off, form, items, name+"_", 0)
		off += r.Len
	}
	if payloadForm == ghost.FormIndef {
		sym.Assume(data[off] == 0xff)
		off++
	}
	ghost.Tie(data, payloadStart, off-payloadStart)
	for _, nm := range []string{"ssc", "dlg", "upd"} {
		off += ghost.Fixed(data, off, nm, 0)
	}
	ghost.Tie(data, bodyStart, off-bodyStart)
	off += ghost.Fixed(data, off, "extra", 0)
	ghost.Tie(data, 0, off)
	blk := data[:off]
	offs, err := common.ExtractTransactionOffsets(blk)
	sym.Reach("done")
	if err == nil && offs != nil {
		sym.Reach("ranges")
		for _, loc := range offs.Transactions {
			sym.Assert(int(loc.Body.Offset+loc.Body.Length) <= len(blk) && int(loc.Witness.Offset+loc.Witness.Length) <= len(blk), "reported ranges lie inside the block")
		}
	}
}

// Diagnostic: the hand-written diagnostic tree parser on arbitrary bytes: it returns a tree or
// an error, never panics, and never sizes an allocation by a length claimed in the input
// (the executor's allocation obligation: every make() is bounded by a small multiple of the
// input size). A returned tree lies inside the input.
func Diagnostic() {
	cbor.VerifAnyIsOpaque = true
	data := sym.Bytes("d", sym.Param("len"))
	if k := sym.Param("long_head"); k != 0 {
		// an array or map whose head carries a k-byte count (k = 1, 2, 4, 8: the
		// inflated-length shapes), followed by the rest of the input
		ai := map[int]byte{1: 24, 2: 25, 4: 26, 8: 27}[k]
		sym.Assume((data[0]>>5 == 4 || data[0]>>5 == 5) && data[0]&0x1f == ai)
	}
	var node *cbor.DiagnosticNode
	var err error
	used := sym.AllocatedBy(func() { node, err = cbor.ParseDiagnostic(data) })
	sym.Reach("done")
	sym.Assert(used <= 1<<20, "memory use stays proportional to the input size, not to a length claimed inside it (native measurement; 1 MiB for at most 11 input bytes)")
	if err == nil {
		sym.Reach("parsed")
		sym.Assert(node != nil && node.Offset == 0 && node.Length == len(data), "a parsed item covers the whole input")
	}
}

// Heads: the header-inspection helpers on arbitrary bytes.
func Heads() {
	data := sym.Bytes("d", sym.Param("len"))
	n, hs, indef := cbor.ArrayInfo(data)
	sym.ObsInt("n", n)
	sym.Assert(n >= -1 && (n == -1 || int(hs) <= len(data) || indef || hs == 1), "ArrayInfo reports a header that lies inside the input")
	n, hs, _ = cbor.MapInfo(data)
	sym.Assert(n >= -1 && hs <= 9, "MapInfo result is in range")
	n, hs, _ = common.VerifCborArrayInfo(data)
	sym.Assert(n >= -1 && hs <= 9, "cborArrayInfo result is in range")
	n, hs, _ = common.VerifCborMapInfo(data)
	sym.Assert(n >= -1 && hs <= 9, "cborMapInfo result is in range")
	off := sym.Int("off")
	sym.Assume(off >= 0)
	_, _ = cbor.VerifArrayHeaderSizeFromBytes(data, off)
	l := sym.Int("length")
	s1, s2 := cbor.ArrayHeaderSize(l), common.VerifCborArrayHeaderSize(l)
	sym.Assert(s1 >= 1 && s1 <= 9 && s2 >= 1 && s2 <= 9, "header sizes are in 1..9")
	sym.Reach("done")
}

// Stream: the stream decoder's manual header parsing and cursor arithmetic.
func Stream() {
	data := sym.Bytes("d", sym.Param("len"))
	dec, err := cbor.NewStreamDecoder(data)
	sym.Assume(err == nil)
	which := sym.U8("op")
	sym.Assume(which <= 4)
	switch {
	case which == 0:
		n, off, hl, err := dec.DecodeArrayHeader()
		if err == nil {
			sym.Assert(n >= 0 && off == 0 && hl >= 1 && hl <= len(data) && dec.Position() == hl, "array header lies inside the input and the cursor follows it")
		}
	case which == 1:
		n, off, hl, err := dec.DecodeMapHeader()
		if err == nil {
			sym.Assert(n >= 0 && off == 0 && hl >= 1 && hl <= len(data) && dec.Position() == hl, "map header lies inside the input and the cursor follows it")
		}
	case which == 2:
		o, l := sym.Int("off"), sym.Int("length")
		r := dec.RawBytes(o, l)
		if r != nil {
			sym.Assert(o >= 0 && l >= 0 && len(r) == l, "RawBytes returns exactly the requested in-range window")
		}
	case which == 3:
		k := sym.Int("n")
		if dec.Advance(k) == nil {
			sym.Assert(k >= 0 && dec.Position() == k && k <= len(data), "Advance moves the cursor inside the input")
		}
	default:
		_ = dec.EOF()
		_, _, _ = dec.Skip()
		_, _, _ = dec.Skip()
	}
	sym.Reach("done")
}

// Lists: ListLength / DecodeIdFromList on arbitrary bytes, the library allowed to fail or to
// report any item extents.
func Lists() {
	data := sym.Bytes("d", sym.Param("len"))
	n, err := cbor.ListLength(data)
	if err == nil {
		sym.Assert(n >= 0, "ListLength is non-negative")
	}
	id, err := cbor.DecodeIdFromList(data)
	if err == nil {
		sym.Assert(id >= 0, "an id is non-negative")
	}
	sym.Reach("done")
}

// Address: NewAddressFromBytes on arbitrary bytes (Shelley family, pointer types included).
func Address() {
	data := sym.Bytes("d", sym.Param("len"))
	if len(data) > 0 {
		sym.Assume(data[0]>>4 != 8) // Byron: decoded by the library
		if len(data) > 38 {
			// pointer tails longer than 9 bytes multiply paths by the number of varint
			// splits (C(28,3) for a 57-byte address): bounded separately (tail <= 9)
			sym.Assume(data[0]>>4 != 4 && data[0]>>4 != 5)
		}
	}
	a, err := common.NewAddressFromBytes(data)
	if err == nil {
		b, berr := a.Bytes()
		sym.Assert(berr == nil && len(b) <= len(data), "an accepted address re-encodes within the input size")
	}
	sym.Reach("done")
}

// Kes: NewSumKesFromBytes for small depths and lengths around the exact size.
func Kes() {
	depth := uint64(sym.Param("depth"))
	data := sym.Bytes("d", sym.Param("len"))
	_, err := kes.NewSumKesFromBytes(depth, data)
	sym.Assert((err == nil) == (uint64(len(data)) == 64+64*depth && depth >= 1), "accepted iff the length is 64 + 64*depth")
	sym.Reach("done")
}

// Segment: NewSegment never builds an oversized segment and the header accessors invert it.
func Segment() {
	n := sym.Param("len")
	id := sym.U16("protocol_id")
	resp := sym.Bool("response")
	seg := muxer.NewSegment(id, make([]byte, n), resp)
	if n > 65535 {
		sym.Assert(seg == nil, "no segment carries more than 65535 payload bytes")
	} else {
		sym.Assert(seg != nil && int(seg.PayloadLength) == n, "payload length is recorded")
		if id < 0x8000 {
			sym.Assert(seg.GetProtocolId() == id && seg.IsResponse() == resp, "protocol id and direction survive the header encoding")
		}
	}
	sym.Reach("done")
}
