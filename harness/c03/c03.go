// Package c03: tagged-sum decoding follows the tag, whatever the length encoding.
package c03

import (
	"verifharness/ghost"
	"verifharness/sym"

	"github.com/blinklabs-io/gouroboros/cbor"
	"github.com/blinklabs-io/gouroboros/ledger/common"
)

var Registry = map[string]func(){
	"IdFromList":     IdFromList,
	"ListLen":        ListLen,
	"ById":           ById,
	"NativeScript":   NativeScript,
	"IdFromLongList": IdFromLongList,
}

// IdFromLongList: the same for lists longer than 130 bytes (a small first element followed by
// three 62-byte byte strings with free contents), every head form: the id does not depend on
// anything behind the first element.
func IdFromLongList() {
	form := sym.Param("form")
	data := sym.Bytes("d", 9+3+3*62+1)
	off := ghost.PutHead(data, 0, 4, form, 4)
	first := off
	off += ghost.LeafK(data, off, "item0", 4)
	for i := 0; i < 3; i++ {
		off += ghost.BytesLeaf(data, off, 60)
	}
	if form == ghost.FormIndef {
		sym.Assume(data[off] == 0xff)
		off++
	}
	// (no extent is asserted for the list as a whole: the contract's item extents are at most
	// 64 bytes, and nothing here decodes the list as one raw item)
	data = data[:off]
	id, err := cbor.DecodeIdFromList(data)
	sym.ObsBool("err", err != nil)
	v, isUint := refFirst(data, first)
	if !isUint {
		sym.Reach("not-uint")
		sym.Assert(err != nil, "a first element that is not an unsigned integer is rejected")
		return
	}
	sym.Reach("uint")
	sym.Assert(err == nil, "a list with an unsigned first element yields an id")
	sym.Assert(uint64(id) == v, "the id is the first element of the list, whatever the head form and whatever follows")
}

// list builds a well-formed CBOR list: head in the given form announcing `items` elements,
// first element a leaf of any kind (unsigned in 1/2/3 bytes, negative, byte string), the
// others one- to three-byte unsigned leaves, break for the indefinite form. All bytes symbolic.
func list(form, items int, firstKinds uint8) ([]byte, int) {
	data := sym.Bytes("d", 9+3*items+1)
	off := ghost.PutHead(data, 0, 4, form, items)
	first := off
	for i := 0; i < items; i++ {
		if i == 0 {
			off += ghost.LeafK(data, off, "item0", firstKinds)
		} else {
			off += ghost.Leaf(data, off, "item"+string(rune('0'+i)))
		}
	}
	if form == ghost.FormIndef {
		sym.Assume(data[off] == 0xff)
		off++
	}
	ghost.Tie(data, 0, off) // the list itself is one well-formed item
	return data[:off], first
}

// refFirst: the reference value of the first element: (v, true) if it is an unsigned integer.
func refFirst(data []byte, first int) (uint64, bool) {
	major, arg, _, indef, ok := cbor.VerifHead(data, first)
	return arg, ok && major == 0 && !indef
}

// IdFromList: the id returned is the list's first element, for every head form; a first
// element that is not an unsigned integer, and an empty list, are errors.
func IdFromList() {
	form, items := sym.Param("form"), sym.Param("items")
	data, first := list(form, items, 4)
	id, err := cbor.DecodeIdFromList(data)
	sym.ObsBool("err", err != nil)
	if items == 0 {
		sym.Reach("empty")
		sym.Assert(err != nil, "an empty list has no id")
		return
	}
	v, isUint := refFirst(data, first)
	if !isUint {
		sym.Reach("not-uint")
		sym.Assert(err != nil, "a first element that is not an unsigned integer is rejected")
		return
	}
	sym.Reach("uint")
	sym.Assert(err == nil, "a list with an unsigned first element yields an id")
	sym.ObsInt("id", id)
	sym.Assert(uint64(id) == v, "the id is the first element of the list, whatever the head form")
}

// ListLen: the length reported is the number of elements for every head form.
func ListLen() {
	form, items := sym.Param("form"), sym.Param("items")
	data, _ := list(form, items, 2)
	n, err := cbor.ListLength(data)
	sym.Reach("decided")
	sym.Assert(err == nil, "ListLength succeeds on a well-formed list")
	sym.ObsInt("n", n)
	sym.Assert(n == items, "ListLength is the number of elements, whatever the head form")
}

// ById: DecodeById hands back the object registered under the list's first element.
func ById() {
	form, items := sym.Param("form"), sym.Param("items")
	data, first := list(form, items, 2)
	objs := map[int]any{}
	var vs [8]*[]any
	for i := range vs {
		vs[i] = new([]any)
		objs[i] = vs[i]
	}
	got, err := cbor.DecodeById(data, objs)
	v, _ := refFirst(data, first)
	if v >= 8 {
		sym.Reach("unknown")
		sym.Assert(err != nil, "an id outside the map is rejected")
		return
	}
	sym.Reach("known")
	sym.Assert(err == nil, "a known id decodes")
	var want *[]any
	for i := range vs {
		if uint64(i) == v {
			want = vs[i]
		}
	}
	sym.Assert(got.(*[]any) == want, "the variant produced is the one named by the first element")
}

// NativeScript: the script variant chosen is the one named by the first element.
func NativeScript() {
	form, items := sym.Param("form"), sym.Param("items")
	data, first := list(form, items, 2)
	var ns common.NativeScript
	err := ns.UnmarshalCBOR(data)
	v, _ := refFirst(data, first)
	if v > 6 {
		sym.Reach("unknown")
		sym.Assert(err != nil, "an unknown native script type is rejected")
		return
	}
	sym.Reach("known")
	if v == 4 || v == 5 {
		sym.Assert(err == nil, "a time-lock script [4|5, slot] decodes")
	}
	if err != nil {
		return
	}
	kind := -1
	switch ns.Item().(type) {
	case *common.NativeScriptPubkey:
		kind = 0
	case *common.NativeScriptAll:
		kind = 1
	case *common.NativeScriptAny:
		kind = 2
	case *common.NativeScriptNofK:
		kind = 3
	case *common.NativeScriptInvalidBefore:
		kind = 4
	case *common.NativeScriptInvalidHereafter:
		kind = 5
	case *common.NativeScriptRequireGuard:
		kind = 6
	}
	sym.Assert(kind == int(v), "the native script variant is the one named by the first element")
}
