// Package c04: received messages whose body does not have the required shape are rejected.
package c04

import (
	"verifharness/sym"

	"github.com/blinklabs-io/gouroboros/cbor"
	"github.com/blinklabs-io/gouroboros/protocol/chainsync"
	pcommon "github.com/blinklabs-io/gouroboros/protocol/common"
)

var Registry = map[string]func(){
	"Point":          Point,
	"WrappedHeader":  WrappedHeader,
	"RollForward":    RollForward,
	"PointRoundTrip": PointRoundTrip,
}

// PointRoundTrip: a chain point built through the library -- the origin, or any slot
// (zero included) with a hash -- encodes and decodes back to an equal point.
func PointRoundTrip() {
	cbor.VerifAutoDeposit = true
	p := pcommon.Point{Slot: sym.U64("slot")}
	if sym.Bool("has_hash") {
		p.Hash = sym.Bytes("hash", 32)
	} else {
		sym.Assume(p.Slot == 0) // the origin; a slot without a hash is not a point
	}
	data, err := p.MarshalCBOR()
	sym.Reach("encoded")
	sym.Assert(err == nil, "a point encodes")
	var q pcommon.Point
	err = q.UnmarshalCBOR(data)
	sym.Assert(err == nil, "an encoded point decodes")
	sym.Assert(q.Slot == p.Slot, "the slot survives the round trip")
	sym.Assert((q.Hash == nil) == (p.Hash == nil) && len(q.Hash) == len(p.Hash), "the hash survives the round trip (a point at slot 0 with a hash is not the origin)")
	for i := range p.Hash {
		sym.Assert(q.Hash[i] == p.Hash[i], "the hash bytes survive the round trip")
	}
}

// element of a generically decoded list: kind 0 unsigned integer, 1 byte string, 2 text string
func element(name string) (any, uint8) {
	k := sym.U8(name + "_kind")
	sym.Assume(k <= 2)
	switch {
	case k == 0:
		return sym.U64(name + "_uint"), 0
	case k == 1:
		return sym.Bytes(name+"_bytes", 2), 1
	}
	return "x", 2
}

// deposit tells the CBOR contract what the (real, natively) encoding of v decodes to.
func deposit(v any, prepared any) []byte {
	data, err := cbor.Encode(v)
	sym.Assume(err == nil)
	if sym.Symbolic() {
		cbor.VerifDepositFor(data, prepared)
	}
	return data
}

// Point: a chain point is either empty or a (slot, hash) pair; any other arity or element
// type is rejected, never coerced to the origin.
func Point() {
	n := sym.Param("elements")
	list := make([]any, n)
	kinds := make([]uint8, n)
	for i := range list {
		list[i], kinds[i] = element("e" + string(rune('0'+i)))
	}
	data := deposit(list, &list)
	var p pcommon.Point
	err := p.UnmarshalCBOR(data)
	sym.ObsBool("accepted", err == nil)
	sym.Reach("decided")
	wellFormed := n == 0 || (n == 2 && kinds[0] == 0 && kinds[1] == 1)
	sym.Assert((err == nil) == wellFormed, "a point is accepted iff it is empty or a (slot, hash) pair")
	if err == nil && n == 2 {
		sym.Assert(p.Slot == list[0].(uint64), "the decoded slot is the first element")
		h := list[1].([]byte)
		sym.Assert(len(p.Hash) == len(h) && p.Hash[0] == h[0] && p.Hash[1] == h[1], "the decoded hash is the second element")
	}
	if err == nil && n == 0 {
		sym.Assert(p.Slot == 0 && p.Hash == nil, "the empty point is the origin")
	}
}

func tagContent(name string) (any, bool) {
	if sym.Bool(name + "_is_bytes") {
		return sym.Bytes(name, 2), true
	}
	return sym.U64(name + "_uint"), false
}

// WrappedHeader (Shelley+ eras): the wrapped header must be a tag whose content is a byte string.
func WrappedHeader() {
	era := sym.U64("era")
	sym.Assume(era >= 1 && era <= 7)
	content, isBytes := tagContent("content")
	tag := cbor.Tag{Number: 24, Content: content}
	raw := deposit(tag, &tag)
	outer := struct {
		cbor.StructAsArray
		Era       uint
		HeaderRaw cbor.RawMessage
	}{Era: uint(era), HeaderRaw: raw}
	data := deposit(outer, &outer)
	var w chainsync.WrappedHeader
	err := w.UnmarshalCBOR(data)
	sym.Reach("decided")
	sym.Assert((err == nil) == isBytes, "a wrapped header is accepted iff the tag content is a byte string")
	if err == nil {
		sym.Assert(w.Era == uint(era), "the era is the first element")
	}
}

// RollForward (NtC): the wrapped block must be a tag whose content is a byte string.
func RollForward() {
	content, isBytes := tagContent("content")
	msg := chainsync.MsgRollForwardNtC{WrappedBlock: cbor.Tag{Number: 24, Content: content}}
	if isBytes {
		wb := chainsync.WrappedBlock{BlockType: uint(sym.U8("block_type")), BlockCbor: []byte{0x80}}
		inner := deposit(wb, &wb)
		msg.WrappedBlock.Content = []byte(inner)
	}
	data := deposit(msg, &msg)
	var m chainsync.MsgRollForwardNtC
	err := m.UnmarshalCBOR(data)
	sym.Reach("decided")
	sym.Assert((err == nil) == isBytes, "a roll-forward is accepted iff the wrapped block tag holds a byte string")
}
