// Package c05: address encodings are mutually consistent (Shelley family).
package c05

import (
	"bytes"
	"strings"

	"verifharness/sym"

	"github.com/blinklabs-io/gouroboros/ledger/common"
	"github.com/btcsuite/btcd/btcutil/bech32"
)

var Registry = map[string]func(){
	"DecodeEncode":  DecodeEncode,
	"PointerDecode": PointerDecode,
	"PointerEncode": PointerEncode,
	"FromParts":     FromParts,
	"HRPGate":       HRPGate,
}

var hrps = []string{"addr", "addr_test", "stake", "stake_test", "ADDR", "add", "a", "stake_tes", "addr_test2", "wrong"}

// HRPGate: parsing the text form accepts a bech32 address only under the human-readable part
// its header calls for (addr / addr_test / stake / stake_test by type and network, compared
// case-insensitively): the header byte is symbolic, the prefix is chosen by a symbolic
// selector from the right prefixes, their proper prefixes, extensions and strangers. Under
// the executor the bech32 decoder is replaced by its contract (prefix and 5-bit groups of the
// payload); natively the string is really encoded and decoded.
func HRPGate() {
	n := sym.Param("len") // 29 or 57
	payload := sym.Bytes("addr", n)
	typ, net := payload[0]>>4, payload[0]&0x0f
	sym.Assume(typ != 4 && typ != 5 && typ != 8 && net <= 1)
	sel := int(sym.U8("hrp_choice"))
	sym.Assume(sel < len(hrps))
	hrp := ""
	for i := range hrps { // concrete string on each path
		if sel == i {
			hrp = hrps[i]
		}
	}
	data5, err := bech32.ConvertBits(payload, 8, 5, true)
	sym.Assume(err == nil)
	text := "stub"
	if sym.Symbolic() {
		common.VerifBech32HRP, common.VerifBech32Data = hrp, data5
	} else {
		text, err = bech32.Encode(strings.ToLower(hrp), data5)
		if err != nil {
			panic(err)
		}
		if hrp == "ADDR" {
			text = strings.ToUpper(text) // bech32 allows an all-upper-case string
		}
	}
	a, perr := common.NewAddress(text)
	sym.ObsBool("accepted", perr == nil)
	sym.Reach("decided")
	want := "addr"
	if typ == 14 || typ == 15 {
		want = "stake"
	}
	if net != 1 {
		want += "_test"
	}
	el := expLen(typ)
	wellFormed := el != 0 && (n == el || (n > el && net == 1 && whitelisted(payload[el:])))
	if perr == nil {
		sym.Reach("accepted")
		sym.Assert(wellFormed && strings.EqualFold(hrp, want), "text parsing accepts a bech32 address only under the prefix that matches its type and network")
		sym.Assert(a.Type() == typ && a.NetworkId() == uint(net), "the parsed address has the header's type and network")
	} else {
		sym.Assert(!(wellFormed && strings.EqualFold(hrp, want)), "a well-formed address under its own prefix parses")
	}
}

// expected length of a non-pointer Shelley-family address of the given type (0 = not such a type)
func expLen(t uint8) int {
	switch t {
	case 0, 1, 2, 3:
		return 57
	case 6, 7, 14, 15:
		return 29
	}
	return 0
}

func whitelisted(trailer []byte) bool {
	for _, t := range common.VerifTrailers() {
		if bytes.Equal(trailer, t) {
			return true
		}
	}
	return false
}

// DecodeEncode (non-pointer types): NewAddressFromBytes accepts exactly the well-formed
// addresses (known type, network 0/1, exact length -- or a whitelisted mainnet trailer);
// the decoded address reports the header nibbles and the payload hashes, and Bytes() gives
// the input back.
func DecodeEncode() {
	n := sym.Param("len")
	b := sym.Bytes("addr", n)
	if n > 0 {
		t := b[0] >> 4
		sym.Assume(t != 4 && t != 5 && t != 8) // pointer types: PointerDecode; Byron: outside
	}
	a, err := common.NewAddressFromBytes(b)
	sym.ObsBool("accepted", err == nil)
	if n == 0 {
		sym.Reach("empty")
		sym.Assert(err != nil, "empty input is rejected")
		return
	}
	typ, net := b[0]>>4, b[0]&0x0f
	el := expLen(typ)
	wellFormed := el != 0 && net <= 1 && (n == el || (n > el && net == 1 && whitelisted(b[el:])))
	if err != nil {
		sym.Reach("rejected")
		sym.Assert(!wellFormed, "a well-formed address is accepted")
		return
	}
	sym.Reach("accepted")
	sym.Assert(wellFormed, "only known types, networks 0/1 and exact lengths (or whitelisted mainnet trailers) are accepted")
	sym.Assert(a.Type() == typ && a.NetworkId() == uint(net), "type and network are the header nibbles")
	if typ <= 7 {
		pay := a.PaymentKeyHash()
		sym.Assert(bytes.Equal(pay[:], b[1:29]), "payment credential is bytes 1..28")
	}
	if typ <= 3 {
		switch p := a.StakingPayload().(type) {
		case common.AddressPayloadKeyHash:
			sym.Assert(typ == 0 || typ == 1, "staking key hash only for types 0 and 1")
			sym.Assert(bytes.Equal(p.Hash[:], b[29:57]), "stake credential is bytes 29..56")
		case common.AddressPayloadScriptHash:
			sym.Assert(typ == 2 || typ == 3, "staking script hash only for types 2 and 3")
			sym.Assert(bytes.Equal(p.Hash[:], b[29:57]), "stake credential is bytes 29..56")
		default:
			sym.Assert(false, "types 0..3 carry a staking credential")
		}
	}
	if typ == 14 || typ == 15 {
		switch p := a.StakingPayload().(type) {
		case common.AddressPayloadKeyHash:
			sym.Assert(typ == 14 && bytes.Equal(p.Hash[:], b[1:29]), "reward key credential is bytes 1..28")
		case common.AddressPayloadScriptHash:
			sym.Assert(typ == 15 && bytes.Equal(p.Hash[:], b[1:29]), "reward script credential is bytes 1..28")
		default:
			sym.Assert(false, "reward addresses carry a staking credential")
		}
	}
	back, berr := a.Bytes()
	sym.Assert(berr == nil && bytes.Equal(back, b), "Bytes() of a decoded address is the input")
}

// refVarint: reference base-128 big-endian varint (most significant group first, high bit =
// continuation) starting at data[off]; ok=false when the input ends inside the number.
func refVarint(data []byte, off int) (val uint64, next int, minimal, ok bool) {
	minimal = true
	for i := off; i < len(data); i++ {
		if i == off && data[i] == 0x80 {
			minimal = false
		}
		val = val<<7 | uint64(data[i]&0x7f)
		if data[i]&0x80 == 0 {
			return val, i + 1, minimal, true
		}
	}
	return 0, len(data), minimal, false
}

// PointerDecode (types 4 and 5): the three pointer values are the reference varints, the
// whole tail must be consumed, and Bytes() gives the input back when the varints are minimal.
func PointerDecode() {
	m := sym.Param("tail")
	b := sym.Bytes("addr", 29+m)
	typ, net := b[0]>>4, b[0]&0x0f
	sym.Assume(typ == 4 || typ == 5)
	a, err := common.NewAddressFromBytes(b)
	tail := b[29:]
	s, o1, m1, ok1 := refVarint(tail, 0)
	t, o2, m2, ok2 := refVarint(tail, o1)
	c, o3, m3, ok3 := refVarint(tail, o2)
	wellFormed := net <= 1 && ok1 && ok2 && ok3 && (o3 == len(tail) || (net == 1 && whitelisted(tail[o3:])))
	sym.ObsBool("accepted", err == nil)
	if err != nil {
		sym.Reach("rejected")
		sym.Assert(!wellFormed, "a well-formed pointer address is accepted")
		return
	}
	sym.Reach("accepted")
	sym.Assert(wellFormed, "only complete pointer triples with nothing left over are accepted")
	p, isPtr := a.StakingPayload().(common.AddressPayloadPointer)
	sym.Assert(isPtr, "pointer types carry a pointer")
	sym.Assert(p.Slot == s && p.TxIndex == t && p.CertIndex == c, "pointer values are the three varints")
	pay := a.PaymentKeyHash()
	sym.Assert(a.Type() == typ && bytes.Equal(pay[:], b[1:29]), "type and payment credential come from the input")
	if m1 && m2 && m3 {
		back, berr := a.Bytes()
		sym.Assert(berr == nil && bytes.Equal(back, b), "Bytes() of a decoded pointer address with minimal varints is the input")
	}
}

// PointerEncode: encode then decode gives the triple back, consumes everything, at most 30 bytes.
func PointerEncode() {
	bits := uint(sym.Param("bits"))
	s, t, c := sym.U64("slot"), sym.U64("tx"), sym.U64("cert")
	if bits < 64 {
		sym.Assume(s < 1<<bits && t < 1<<bits && c < 1<<bits)
	}
	enc := common.VerifPointerEncode(s, t, c)
	p, n, err := common.VerifPointerDecode(enc)
	sym.Reach("decided")
	sym.Assert(len(enc) <= 30, "a pointer encodes in at most 30 bytes")
	sym.Assert(err == nil && n == len(enc), "the encoding decodes completely")
	sym.Assert(p.Slot == s && p.TxIndex == t && p.CertIndex == c, "decode(encode(p)) = p")
	_, _, m1, _ := refVarint(enc, 0)
	sym.Assert(m1, "the encoding is minimal")
}

// FromParts: an address built from parts encodes to header || payment || staking and decodes
// back to the same parts.
func FromParts() {
	typ := uint8(sym.Param("type"))
	net := sym.U8("network")
	sym.Assume(net <= 1)
	var pay, stake []byte
	if typ <= 7 {
		pay = sym.Bytes("payment", 28)
	}
	if typ <= 3 || typ == 14 || typ == 15 {
		stake = sym.Bytes("stake", 28)
	}
	a, err := common.NewAddressFromParts(typ, net, pay, stake)
	sym.Assume(err == nil)
	enc, eerr := a.Bytes()
	sym.Reach("decided")
	sym.Assert(eerr == nil && len(enc) == 1+len(pay)+len(stake), "encoded length is header + credentials")
	sym.Assert(enc[0] == typ<<4|net, "header byte is type and network")
	sym.Assert(bytes.Equal(enc[1:1+len(pay)], pay) && bytes.Equal(enc[1+len(pay):], stake), "credentials follow the header")
	d, derr := common.NewAddressFromBytes(enc)
	sym.Assert(derr == nil && d.Type() == typ && d.NetworkId() == uint(net), "the encoding decodes to the same type and network")
	back, _ := d.Bytes()
	sym.Assert(bytes.Equal(back, enc), "decode then encode is the identity")
}
