// Package c06: multi-asset values behave as a commutative group up to zeros.
package c06

import (
	"math/big"

	"verifharness/sym"

	"github.com/blinklabs-io/gouroboros/cbor"
	"github.com/blinklabs-io/gouroboros/ledger/common"
)

var Registry = map[string]func(){
	"CompareBig":   CompareBig,
	"TransBig":     TransBig,
	"AddBig":       AddBig,
	"AssocBig":     AssocBig,
	"CompareInt64": CompareInt64,
	"AddInt64":     AddInt64,
	"AddUint64":    AddUint64,
}

var pol = [2]common.Blake2b224{{1}, {2}}
var nam = [2][]byte{{0xaa}, {0xbb}}

// key universe: (policy, name) pairs; the first nk are used
var keys = [4][2]int{{0, 0}, {0, 1}, {1, 0}, {1, 1}}

type MB = common.MultiAsset[*big.Int]

// buildBig: a multi-asset over the first nk keys with symbolic presence and unbounded
// quantities (zero and, when allowNil, a nil pointer included).
func buildBig(tag string, nk int, allowNil bool) (*MB, []*big.Int) {
	data := map[common.Blake2b224]map[cbor.ByteString]*big.Int{}
	q := make([]*big.Int, nk)
	for k := 0; k < nk; k++ {
		q[k] = new(big.Int)
		name := tag + string(rune('0'+k))
		if sym.Bool("has_" + name) {
			p, n := keys[k][0], keys[k][1]
			if data[pol[p]] == nil {
				data[pol[p]] = map[cbor.ByteString]*big.Int{}
			}
			if allowNil && sym.Bool("nil_"+name) {
				data[pol[p]][cbor.NewByteString(nam[n])] = nil
			} else {
				v := sym.Big("q_" + name)
				data[pol[p]][cbor.NewByteString(nam[n])] = v
				q[k] = v
			}
		}
	}
	m := common.NewMultiAsset[*big.Int](data)
	return &m, q
}

func qtyBig(m *MB, k int) *big.Int {
	v := m.Asset(pol[keys[k][0]], nam[keys[k][1]])
	if v == nil {
		return new(big.Int)
	}
	return v
}

func sameBig(a, b []*big.Int) bool {
	same := true
	for k := range a {
		if a[k].Cmp(b[k]) != 0 {
			same = false
		}
	}
	return same
}

// CompareBig: Compare is reflexive, symmetric and means "same non-zero quantity per key".
func CompareBig() {
	nk := sym.Param("keys")
	a, qa := buildBig("a", nk, true)
	b, qb := buildBig("b", nk, true)
	sym.Assert(a.Compare(a), "Compare is reflexive")
	ab, ba := a.Compare(b), b.Compare(a)
	sym.ObsBool("ab", ab)
	sym.Reach("decided")
	sym.Assert(ab == ba, "Compare is symmetric")
	sym.Assert(ab == sameBig(qa, qb), "Compare means equal non-zero quantities per (policy, asset)")
}

// TransBig: Compare is transitive.
func TransBig() {
	nk := sym.Param("keys")
	a, _ := buildBig("a", nk, false)
	b, _ := buildBig("b", nk, false)
	c, _ := buildBig("c", nk, false)
	if a.Compare(b) && b.Compare(c) {
		sym.Reach("premise")
		sym.Assert(a.Compare(c), "Compare is transitive")
	}
}

// AddBig: Add is per-key integer addition and commutative under Compare; it does not
// change its argument.
func AddBig() {
	nk := sym.Param("keys")
	a, qa := buildBig("a", nk, true)
	b, qb := buildBig("b", nk, true)
	a2, _ := buildBig("a", nk, true) // same symbols: an equal copy
	b2, _ := buildBig("b", nk, true)
	a.Add(b)   // a := a + b
	b2.Add(a2) // b2 := b + a
	sym.Reach("decided")
	for k := 0; k < nk; k++ {
		sum := new(big.Int).Add(qa[k], qb[k])
		sym.Assert(qtyBig(a, k).Cmp(sum) == 0, "Add agrees with per-asset integer addition")
		sym.Assert(qtyBig(b, k).Cmp(qb[k]) == 0, "Add does not change its argument")
	}
	sym.Assert(a.Compare(b2), "Add is commutative under Compare")
}

// AssocBig: (a+b)+c equals a+(b+c) under Compare.
func AssocBig() {
	nk := sym.Param("keys")
	a, _ := buildBig("a", nk, false)
	b, qb := buildBig("b", nk, false)
	c, qc := buildBig("c", nk, false)
	a2, _ := buildBig("a", nk, false)
	b2, _ := buildBig("b", nk, false)
	c2, _ := buildBig("c", nk, false)
	a.Add(b)
	a.Add(c) // (a+b)+c
	b2.Add(c2)
	a2.Add(b2) // a+(b+c)
	sym.Reach("decided")
	sym.Assert(a.Compare(a2), "Add is associative under Compare")
	// the operands of a sum can be used again: later additions to the sum do not reach them
	for k := 0; k < nk; k++ {
		sym.Assert(qtyBig(b, k).Cmp(qb[k]) == 0 && qtyBig(c, k).Cmp(qc[k]) == 0, "a sum does not share state with its operands (adding to it later leaves them unchanged)")
	}
}

type MI = common.MultiAsset[int64]

func buildI64(tag string, nk int) (*MI, []int64) {
	data := map[common.Blake2b224]map[cbor.ByteString]int64{}
	q := make([]int64, nk)
	for k := 0; k < nk; k++ {
		name := tag + string(rune('0'+k))
		if sym.Bool("has_" + name) {
			p, n := keys[k][0], keys[k][1]
			if data[pol[p]] == nil {
				data[pol[p]] = map[cbor.ByteString]int64{}
			}
			v := int64(sym.U64("q_" + name))
			data[pol[p]][cbor.NewByteString(nam[n])] = v
			q[k] = v
		}
	}
	m := common.NewMultiAsset[int64](data)
	return &m, q
}

// CompareInt64: same for the int64 instantiation.
func CompareInt64() {
	nk := sym.Param("keys")
	a, qa := buildI64("a", nk)
	b, qb := buildI64("b", nk)
	ab, ba := a.Compare(b), b.Compare(a)
	same := true
	for k := 0; k < nk; k++ {
		if qa[k] != qb[k] {
			same = false
		}
	}
	sym.Reach("decided")
	sym.Assert(ab == ba, "Compare is symmetric (int64)")
	sym.Assert(ab == same, "Compare means equal non-zero quantities per key (int64)")
}

// AddInt64: per-key (wrapping) addition, commutative.
func AddInt64() {
	nk := sym.Param("keys")
	a, qa := buildI64("a", nk)
	b, qb := buildI64("b", nk)
	a2, _ := buildI64("a", nk)
	b2, _ := buildI64("b", nk)
	a.Add(b)
	b2.Add(a2)
	sym.Reach("decided")
	for k := 0; k < nk; k++ {
		sym.Assert(a.Asset(pol[keys[k][0]], nam[keys[k][1]]) == qa[k]+qb[k], "Add agrees with per-asset addition (int64, wrapping)")
	}
	sym.Assert(a.Compare(b2), "Add is commutative under Compare (int64)")
	a.Add(a2) // a further addition to the sum must not reach the earlier operand
	for k := 0; k < nk; k++ {
		sym.Assert(b.Asset(pol[keys[k][0]], nam[keys[k][1]]) == qb[k], "a sum does not share state with its operands (int64)")
	}
}

type MU = common.MultiAsset[uint64]

// AddUint64: the uint64 instantiation.
func AddUint64() {
	nk := sym.Param("keys")
	mk := func(tag string) (*MU, []uint64) {
		data := map[common.Blake2b224]map[cbor.ByteString]uint64{}
		q := make([]uint64, nk)
		for k := 0; k < nk; k++ {
			name := tag + string(rune('0'+k))
			if sym.Bool("has_" + name) {
				p, n := keys[k][0], keys[k][1]
				if data[pol[p]] == nil {
					data[pol[p]] = map[cbor.ByteString]uint64{}
				}
				v := sym.U64("q_" + name)
				data[pol[p]][cbor.NewByteString(nam[n])] = v
				q[k] = v
			}
		}
		m := common.NewMultiAsset[uint64](data)
		return &m, q
	}
	a, qa := mk("a")
	b, qb := mk("b")
	a2, _ := mk("a")
	b2, _ := mk("b")
	sym.Assert(a.Compare(a2), "Compare is reflexive on equal copies (uint64)")
	a.Add(b)
	b2.Add(a2)
	sym.Reach("decided")
	for k := 0; k < nk; k++ {
		sym.Assert(a.Asset(pol[keys[k][0]], nam[keys[k][1]]) == qa[k]+qb[k], "Add agrees with per-asset addition (uint64, wrapping)")
	}
	sym.Assert(a.Compare(b2), "Add is commutative under Compare (uint64)")
}
