// Package c07: transaction byte offsets point at the decoded components (and, C01, the
// block decoders hand every component exactly its wire bytes).
package c07

import (
	"verifharness/ghost"
	"verifharness/sym"

	"github.com/blinklabs-io/gouroboros/ledger/common"
)

// txBlock builds a block with one transaction whose body is a map {0: leaf, 1: outputs, 2:
// leaf}: the body map head and the outputs array head use the given forms, each output has one of
// the four wire shapes of an output (definite/indefinite array/map). Returns the block bytes and the outputs' ranges.
func txBlock(mapForm, outForm, nOut int) ([]byte, []ghost.Range, ghost.Range) {
	data := sym.Bytes("blk", 1+1+(1+9+2+2+9+4*nOut+1+2+1)+2+1+2)
	off := ghost.PutHead(data, 0, 4, ghost.FormImm, 4)
	off += ghost.Fixed(data, off, "hdr", 0)
	// bodies array with one body
	bodiesStart := off
	off += ghost.PutHead(data, off, 4, ghost.FormImm, 1)
	bodyStart := off
	off += ghost.PutHead(data, off, 5, mapForm, 3)
	off += ghost.Fixed(data, off, "k0", 0)
	sym.Assume(data[off-1] == 0)
	off += ghost.Fixed(data, off, "v0", 0)
	off += ghost.Fixed(data, off, "k1", 0)
	sym.Assume(data[off-1] == 1)
	outsStart := off
	off += ghost.PutHead(data, off, 4, outForm, nOut)
	outs := make([]ghost.Range, nOut)
	for j := 0; j < nOut; j++ {
		l := ghost.Output(data, off, "out"+string(rune('0'+j)))
		outs[j] = ghost.Range{Off: off, Len: l}
		off += l
	}
	if outForm == ghost.FormIndef {
		sym.Assume(data[off] == 0xff)
		off++
	}
	ghost.Tie(data, outsStart, off-outsStart)
	off += ghost.Fixed(data, off, "k2", 0)
	sym.Assume(data[off-1] == 2)
	off += ghost.Fixed(data, off, "v2", 0)
	if mapForm == ghost.FormIndef {
		sym.Assume(data[off] == 0xff)
		off++
	}
	body := ghost.Range{Off: bodyStart, Len: off - bodyStart}
	ghost.Tie(data, bodyStart, body.Len)
	ghost.Tie(data, bodiesStart, off-bodiesStart)
	// witnesses array with one leaf, metadata leaf
	witStart := off
	off += ghost.PutHead(data, off, 4, ghost.FormImm, 1)
	off += ghost.Fixed(data, off, "wit", 0)
	ghost.Tie(data, witStart, off-witStart)
	off += ghost.Fixed(data, off, "meta", 0)
	ghost.Tie(data, 0, off)
	return data[:off], outs, body
}

func checkOutputs(offs *common.BlockTransactionOffsets, err error, data []byte, outs []ghost.Range, body ghost.Range) {
	sym.Reach("decided")
	sym.Assert(err == nil && offs != nil && len(offs.Transactions) == 1, "offset extraction succeeds on a well-formed block")
	loc := offs.Transactions[0]
	sym.Assert(int(loc.Body.Offset) == body.Off && int(loc.Body.Length) == body.Len, "body range is the transaction body's bytes")
	sym.Assert(len(loc.Outputs) == len(outs), "one range per output")
	for j := range outs {
		sym.Assert(int(loc.Outputs[j].Offset) == outs[j].Off && int(loc.Outputs[j].Length) == outs[j].Len, "output range is the output's bytes")
	}
}

// Outputs: output ranges for every head form of the body map and of the outputs array.
func Outputs() {
	data, outs, body := txBlock(sym.Param("map_form"), sym.Param("outputs_form"), sym.Param("outputs"))
	offs, err := common.ExtractTransactionOffsets(data)
	checkOutputs(offs, err, data, outs, body)
}

// StreamingOutputs: the same through the streaming decoder.
func StreamingOutputs() {
	data, outs, body := txBlock(sym.Param("map_form"), sym.Param("outputs_form"), sym.Param("outputs"))
	d, err := common.NewStreamingBlockDecoder(data)
	sym.Assume(err == nil)
	offs, err := d.DecodeWithOffsets()
	checkOutputs(offs, err, data, outs, body)
}

// ByronRanges: a Byron-shaped block [header, [tx_payload, ssc, dlg, upd], extra] with n
// transaction pairs [body, witnesses]; the block array, the body array, the payload array and
// the pair arrays each use the given head form. The reported body and witness ranges are the
// bytes of the pair's two items.
func ByronRanges() {
	fb, fbody, fpay, fpair, n := sym.Param("block_form"), sym.Param("body_form"), sym.Param("payload_form"), sym.Param("pair_form"), sym.Param("txs")
	data := sym.Bytes("blk", 9+1+9+9+n*(9+2+1)+1+3+1+1+1)
	off := ghost.PutHead(data, 0, 4, fb, 3)
	off += ghost.Fixed(data, off, "hdr", 0)
	bodyStart := off
	off += ghost.PutHead(data, off, 4, fbody, 4)
	payStart := off
	off += ghost.PutHead(data, off, 4, fpay, n)
	type pr struct{ body, wit ghost.Range }
	pairs := make([]pr, n)
	for i := 0; i < n; i++ {
		r, items := ghost.PutLeafArray(data, off, fpair, 2, "pair"+string(rune('0'+i))+"_", 0)
		pairs[i] = pr{items[0], items[1]}
		off += r.Len
	}
	if fpay == ghost.FormIndef {
		sym.Assume(data[off] == 0xff)
		off++
	}
	ghost.Tie(data, payStart, off-payStart)
	for _, nm := range []string{"ssc", "dlg", "upd"} {
		off += ghost.Fixed(data, off, nm, 0)
	}
	if fbody == ghost.FormIndef {
		sym.Assume(data[off] == 0xff)
		off++
	}
	ghost.Tie(data, bodyStart, off-bodyStart)
	off += ghost.Fixed(data, off, "extra", 0)
	if fb == ghost.FormIndef {
		sym.Assume(data[off] == 0xff)
		off++
	}
	ghost.Tie(data, 0, off)
	blk := data[:off]
	offs, err := common.ExtractTransactionOffsets(blk)
	sym.Reach("decided")
	sym.Assert(err == nil && offs != nil && len(offs.Transactions) == n, "offset extraction succeeds on a well-formed Byron block")
	for i := range pairs {
		loc := offs.Transactions[i]
		sym.Assert(int(loc.Body.Offset) == pairs[i].body.Off && int(loc.Body.Length) == pairs[i].body.Len, "Byron body range is the transaction body's bytes")
		sym.Assert(int(loc.Witness.Offset) == pairs[i].wit.Off && int(loc.Witness.Length) == pairs[i].wit.Len, "Byron witness range is the witnesses' bytes")
	}
}

var Registry = map[string]func(){
	"ByronRanges":      ByronRanges,
	"Outputs":          Outputs,
	"StreamingOutputs": StreamingOutputs,
	"BlockLevel":       BlockLevel,
	"Streaming":        Streaming,
	"ExtractCbor":      ExtractCbor,
}

type layout struct {
	data          []byte
	header, meta  ghost.Range
	bodies, wits  []ghost.Range
	bodiesA, witA ghost.Range
}

// block builds a Shelley+ block [header, bodies[n], witnesses[n], metadata] whose block array,
// bodies array and witness array each use the given head form; every byte is symbolic and
// every item is a well-formed leaf.
func block(fb, f1, f2, n int, kinds uint8) layout {
	var l layout
	data := sym.Bytes("blk", 9+3+2*(9+3*n+1)+3+1)
	off := ghost.PutHead(data, 0, 4, fb, 4)
	hl := ghost.LeafK(data, off, "hdr", kinds)
	l.header = ghost.Range{Off: off, Len: hl}
	off += hl
	l.bodiesA, l.bodies = ghost.PutLeafArray(data, off, f1, n, "body", kinds)
	off += l.bodiesA.Len
	l.witA, l.wits = ghost.PutLeafArray(data, off, f2, n, "wit", kinds)
	off += l.witA.Len
	ml := ghost.LeafK(data, off, "meta", kinds)
	l.meta = ghost.Range{Off: off, Len: ml}
	off += ml
	if fb == ghost.FormIndef {
		sym.Assume(data[off] == 0xff)
		off++
	}
	ghost.Tie(data, 0, off)
	l.data = data[:off]
	return l
}

func params() (int, int, int, int, uint8) {
	return sym.Param("block_form"), sym.Param("bodies_form"), sym.Param("wits_form"), sym.Param("txs"), uint8(sym.Param("leaf_kinds"))
}

func checkOffsets(l layout, offs *common.BlockTransactionOffsets, err error) {
	sym.Reach("decided")
	sym.Assert(err == nil && offs != nil, "offset extraction succeeds on a well-formed block")
	sym.Assert(len(offs.Transactions) == len(l.bodies), "one location per transaction")
	for i := range l.bodies {
		loc := offs.Transactions[i]
		sym.Assert(int(loc.Body.Offset) == l.bodies[i].Off && int(loc.Body.Length) == l.bodies[i].Len, "body range is the transaction body's bytes")
		sym.Assert(int(loc.Witness.Offset) == l.wits[i].Off && int(loc.Witness.Length) == l.wits[i].Len, "witness range is the witness set's bytes")
		sym.Assert(int(loc.Body.Offset+loc.Body.Length) <= len(l.data) && int(loc.Witness.Offset+loc.Witness.Length) <= len(l.data), "ranges lie inside the block")
	}
}

// BlockLevel: ExtractTransactionOffsets reports the ghost ranges for every head form.
func BlockLevel() {
	l := block(params())
	offs, err := common.ExtractTransactionOffsets(l.data)
	checkOffsets(l, offs, err)
}

// Streaming: the streaming decoder reports the same.
func Streaming() {
	l := block(params())
	d, err := common.NewStreamingBlockDecoder(l.data)
	sym.Assume(err == nil)
	offs, err := d.DecodeWithOffsets()
	checkOffsets(l, offs, err)
}

// ExtractCbor (C01): the block decoders' extraction step hands every body, witness set and
// the metadata exactly the bytes they were decoded from, for every head form.
func ExtractCbor() {
	fb, f1, f2, n, kinds := params()
	l := block(fb, f1, f2, n, kinds)
	got := make([][2][]byte, n)
	var meta []byte
	err := common.ExtractAndSetTransactionCbor(l.data,
		func(i int, b []byte) { got[i][0] = b },
		func(i int, b []byte) { got[i][1] = b },
		func(b []byte) { meta = b }, n, n)
	sym.Reach("decided")
	sym.Assert(err == nil, "component extraction succeeds on a well-formed block")
	same := func(b []byte, r ghost.Range) bool {
		if len(b) != r.Len {
			return false
		}
		for k := range b {
			if &b[k] != &l.data[r.Off+k] {
				return false
			}
		}
		return true
	}
	for i := 0; i < n; i++ {
		sym.Assert(same(got[i][0], l.bodies[i]), "each transaction body gets exactly its wire bytes")
		sym.Assert(same(got[i][1], l.wits[i]), "each witness set gets exactly its wire bytes")
	}
	sym.Assert(same(meta, l.meta), "the metadata gets exactly its wire bytes")
}
