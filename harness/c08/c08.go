// Package c08: transaction output values stay within the ledger's value range.
package c08

import (
	"math/big"

	"verifharness/sym"

	"github.com/blinklabs-io/gouroboros/cbor"
	"github.com/blinklabs-io/gouroboros/ledger/alonzo"
	"github.com/blinklabs-io/gouroboros/ledger/babbage"
	"github.com/blinklabs-io/gouroboros/ledger/common"
	"github.com/blinklabs-io/gouroboros/ledger/mary"
)

var Registry = map[string]func(){
	"OutputValue": OutputValue,
}

// every multi-asset era's output keeps its value in a MaryTransactionOutputValue, whose
// UnmarshalCBOR is therefore the decode-time gate for all of them (Conway and Dijkstra
// outputs are Babbage/Alonzo outputs)
var (
	_ mary.MaryTransactionOutputValue = mary.MaryTransactionOutput{}.OutputAmount
	_ mary.MaryTransactionOutputValue = alonzo.AlonzoTransactionOutput{}.OutputAmount
	_ mary.MaryTransactionOutputValue = babbage.BabbageTransactionOutput{}.OutputAmount
)

var policy = common.Blake2b224{9}

// OutputValue: an output value [coin, {policy: {name: q}}] decodes only if 0 <= q <= 2^64-1
// for every asset quantity (two assets, quantities over all integers).
func OutputValue() {
	q0, q1 := sym.Big("quantity0"), sym.Big("quantity1")
	coin := sym.U64("coin")
	assets := common.NewMultiAsset[common.MultiAssetTypeOutput](map[common.Blake2b224]map[cbor.ByteString]*big.Int{
		policy: {cbor.NewByteString([]byte{0xaa}): q0, cbor.NewByteString([]byte{0xbb}): q1},
	})
	prepared := mary.MaryTransactionOutputValue{Amount: coin, Assets: &assets}
	var data []byte
	if sym.Symbolic() {
		data = []byte{0x82, 0x00, 0xa1}
		cbor.VerifDepositFor(data, &prepared)
	} else {
		var err error
		data, err = cbor.Encode([]any{coin, map[common.Blake2b224]map[cbor.ByteString]*big.Int{
			policy: {cbor.NewByteString([]byte{0xaa}): q0, cbor.NewByteString([]byte{0xbb}): q1},
		}})
		if err != nil {
			panic(err)
		}
	}
	var v mary.MaryTransactionOutputValue
	err := v.UnmarshalCBOR(data)
	sym.ObsBool("accepted", err == nil)
	max := new(big.Int).SetUint64(^uint64(0))
	inRange := q0.Sign() >= 0 && q0.Cmp(max) <= 0 && q1.Sign() >= 0 && q1.Cmp(max) <= 0
	sym.Reach("decided")
	sym.Assert(err != nil || inRange, "a decoded output carries no negative asset quantity and none above 2^64-1")
	sym.Assert(err == nil || !inRange, "an output whose quantities are in range decodes")
	if err == nil {
		g0 := v.Assets.Asset(policy, []byte{0xaa})
		if g0 == nil {
			g0 = new(big.Int)
		}
		sym.Assert(g0.Cmp(q0) == 0, "the decoded quantity is the encoded one")
	}
}
