// Package c09: the muxer delivers each byte stream intact to the right endpoint (and, C17,
// diffusion modes gate the direction of what is accepted).
package c09

import (
	"io"
	"net"
	"time"

	"verifharness/sym"

	"github.com/blinklabs-io/gouroboros/muxer"
)

var Registry = map[string]func(){
	"ReadLoop": ReadLoop,
	"Send":     Send,
}

type addr struct{}

func (addr) Network() string { return "stub" }
func (addr) String() string  { return "stub" }

// scriptConn: a connection that delivers a byte script in chunks of symbolic size and
// records what is written.
type scriptConn struct {
	script  []byte
	pos     int
	reads   int
	frag    int
	written [][]byte
}

func (c *scriptConn) Read(p []byte) (int, error) {
	if c.pos >= len(c.script) {
		return 0, io.EOF
	}
	max := len(c.script) - c.pos
	if len(p) < max {
		max = len(p)
	}
	if max == 0 {
		return 0, nil
	}
	// the connection may fragment the stream arbitrarily: the first `frag` reads deliver a
	// symbolic number of bytes (1..max), later reads whatever is asked for
	c.reads++
	n := max
	if c.reads <= c.frag {
		n = int(sym.U8("chunk" + string(rune('a'+c.reads))))
		sym.Assume(n >= 1 && n <= max)
		for k := 1; k <= max; k++ { // concretise
			if n == k {
				n = k
			}
		}
	}
	copy(p, c.script[c.pos:c.pos+n])
	c.pos += n
	return n, nil
}
func (c *scriptConn) Write(p []byte) (int, error) {
	c.written = append(c.written, append([]byte{}, p...))
	return len(p), nil
}
func (c *scriptConn) Close() error                     { return nil }
func (c *scriptConn) LocalAddr() net.Addr              { return addr{} }
func (c *scriptConn) RemoteAddr() net.Addr             { return addr{} }
func (c *scriptConn) SetDeadline(time.Time) error      { return nil }
func (c *scriptConn) SetReadDeadline(time.Time) error  { return nil }
func (c *scriptConn) SetWriteDeadline(time.Time) error { return nil }

type endpoint struct {
	id   uint16
	role muxer.ProtocolRole
	ch   chan *muxer.Segment
}

// ReadLoop: the peer sends one segment (8 symbolic header bytes, payload of the announced
// length) in any fragmentation, then closes. Receivers are registered for a symbolic subset
// of endpoints; the diffusion mode is symbolic. The segment is delivered exactly once, to the
// receiver registered for (protocol id, direction), payload intact -- or the muxer reports an
// error and stops: zero-length payload, unregistered endpoint, direction not allowed by the
// diffusion mode. Unregistering one role of a protocol leaves the other role's receiver in place.
func ReadLoop() {
	plen := sym.Param("payload")
	hdr := sym.Bytes("hdr", 8)
	sym.Assume(int(hdr[6])<<8|int(hdr[7]) == plen)
	payload := sym.Bytes("payload", plen)
	conn := &scriptConn{script: append(append([]byte{}, hdr...), payload...), frag: sym.Param("fragmented_reads")}
	m := muxer.VerifNewMuxer(conn)
	mode := sym.U8("diffusion_mode")
	sym.Assume(mode <= 3)
	m.SetDiffusionMode(muxer.DiffusionMode(mode))
	eps := []*endpoint{{2, muxer.ProtocolRoleInitiator, nil}, {2, muxer.ProtocolRoleResponder, nil}, {3, muxer.ProtocolRoleInitiator, nil}, {muxer.ProtocolUnknown, muxer.ProtocolRoleResponder, nil}}
	for i, e := range eps {
		if sym.Bool("registered" + string(rune('0'+i))) {
			e.ch = muxer.VerifRegister(m, e.id, e.role)
		}
	}
	// one role of a full-duplex protocol may be unregistered again (what Protocol.Stop does)
	// while the other role stays registered
	if unreg := sym.U8("unregister"); eps[0].ch != nil && eps[1].ch != nil && unreg != 0 {
		sym.Assume(unreg <= 2)
		gone := eps[0]
		if unreg == 2 {
			gone = eps[1]
		}
		m.UnregisterProtocol(gone.id, gone.role)
		gone.ch = nil
		sym.Reach("unregistered-one-role")
	}
	muxer.VerifReadLoop(m)

	// reference
	rawId := uint16(hdr[4])<<8 | uint16(hdr[5])
	response := rawId&0x8000 != 0
	id := rawId &^ 0x8000
	role := muxer.ProtocolRoleResponder // a request is for our responder
	if response {
		role = muxer.ProtocolRoleInitiator
	}
	var target *endpoint
	idKnown := false
	for _, e := range eps[:3] {
		if e.ch != nil && e.id == id {
			idKnown = true
			if e.role == role {
				target = e
			}
		}
	}
	if !idKnown && eps[3].ch != nil && role == muxer.ProtocolRoleResponder {
		target = eps[3]
	}
	modeRejects := (mode == 1 && !response) || (mode == 2 && response)
	expectDelivery := plen > 0 && !modeRejects && target != nil

	delivered := 0
	var errs int
	for len(muxer.VerifErrors(m)) > 0 {
		<-muxer.VerifErrors(m)
		errs++
	}
	sym.Reach("done")
	for _, e := range eps {
		if e.ch == nil {
			continue
		}
		for len(e.ch) > 0 {
			seg, ok := <-e.ch
			if !ok {
				break
			}
			delivered++
			sym.Assert(e == target, "a segment is delivered only to the receiver registered for its protocol id and direction")
			sym.Assert(len(seg.Payload) == plen, "the delivered payload has the announced length")
			for k := 0; k < plen; k++ {
				sym.Assert(seg.Payload[k] == payload[k], "the delivered payload is the bytes read, whatever the fragmentation")
			}
			sym.Assert(seg.GetProtocolId() == id && seg.IsResponse() == response, "the delivered header is the header read")
		}
	}
	if expectDelivery {
		sym.Reach("delivered")
		sym.Assert(delivered == 1, "a deliverable segment is delivered exactly once")
	} else {
		sym.Reach("rejected")
		sym.Assert(delivered == 0, "a zero-length segment, an unregistered endpoint or a direction the diffusion mode forbids delivers nothing")
		sym.Assert(errs >= 1 && muxer.VerifStopped(m), "such a segment closes the connection with an error")
	}
	if mode == 1 {
		sym.Assert(response || delivered == 0, "initiator-only: a peer request never reaches a local responder")
	}
	if mode == 2 {
		sym.Assert(!response || delivered == 0, "responder-only: a peer response is never delivered")
	}
}

// Send: one write per segment, made of the big-endian header followed by the payload.
func Send() {
	plen := sym.Param("payload")
	payload := sym.Bytes("payload", plen)
	id := sym.U16("protocol_id")
	sym.Assume(id < 0x8000)
	resp := sym.Bool("response")
	conn := &scriptConn{}
	m := muxer.VerifNewMuxer(conn)
	seg := muxer.NewSegment(id, payload, resp)
	sym.Assume(seg != nil)
	err := m.Send(seg)
	sym.Reach("sent")
	sym.Assert(err == nil && len(conn.written) == 1, "a segment is written with exactly one Write")
	w := conn.written[0]
	sym.Assert(len(w) == 8+plen, "the write is header plus payload")
	wire := uint16(w[4])<<8 | uint16(w[5])
	want := id
	if resp {
		want |= 0x8000
	}
	sym.Assert(wire == want, "protocol id and direction bit are big-endian bytes 4..5")
	sym.Assert(int(w[6])<<8|int(w[7]) == plen, "payload length is big-endian bytes 6..7")
	for k := 0; k < plen; k++ {
		sym.Assert(w[8+k] == payload[k], "the payload follows the header unmodified")
	}
}
