// Package c16: mini-protocol state machines match the network specification.
//
// The specification automata below are written from the Ouroboros network specification
// (mini-protocol chapters and CDDL wire tags), independently of the implementation's tables.
package c16

import (
	"strings"

	"verifharness/sym"

	"github.com/blinklabs-io/gouroboros/protocol"
	"github.com/blinklabs-io/gouroboros/protocol/blockfetch"
	"github.com/blinklabs-io/gouroboros/protocol/chainsync"
	"github.com/blinklabs-io/gouroboros/protocol/handshake"
	"github.com/blinklabs-io/gouroboros/protocol/keepalive"
	"github.com/blinklabs-io/gouroboros/protocol/localstatequery"
	"github.com/blinklabs-io/gouroboros/protocol/localtxmonitor"
	"github.com/blinklabs-io/gouroboros/protocol/localtxsubmission"
	"github.com/blinklabs-io/gouroboros/protocol/peersharing"
	"github.com/blinklabs-io/gouroboros/protocol/txsubmission"
)

var Registry = map[string]func(){
	"Product": Product,
	"Codec":   Codec,
}

const (
	none   = 0
	client = 1
	server = 2
)

type tr struct {
	msg     uint8
	variant int // -1: any; for guarded messages 0/1 selects the guard value
	to      string
}
type st struct {
	name   string
	agency int
	trans  []tr
}
type automaton struct {
	name    string
	initial string
	states  []st
}

func specs() []automaton {
	chainSync := []st{
		{"Idle", client, []tr{{0, -1, "CanAwait"}, {4, -1, "Intersect"}, {7, -1, "Done"}}},
		{"CanAwait", server, []tr{{1, -1, "MustReply"}, {2, -1, "Idle"}, {3, -1, "Idle"}}},
		{"MustReply", server, []tr{{2, -1, "Idle"}, {3, -1, "Idle"}}},
		{"Intersect", server, []tr{{5, -1, "Idle"}, {6, -1, "Idle"}}},
		{"Done", none, nil},
	}
	hs := []st{
		{"Propose", client, []tr{{0, -1, "Confirm"}}},
		{"Confirm", server, []tr{{1, -1, "Done"}, {2, -1, "Done"}, {3, -1, "Done"}}},
		{"Done", none, nil},
	}
	return []automaton{
		{"handshake-ntn", "Propose", hs},
		{"handshake-ntc", "Propose", hs},
		{"chain-sync-ntn", "Idle", chainSync},
		{"chain-sync-ntc", "Idle", chainSync},
		{"block-fetch", "Idle", []st{
			{"Idle", client, []tr{{0, -1, "Busy"}, {1, -1, "Done"}}},
			{"Busy", server, []tr{{2, -1, "Streaming"}, {3, -1, "Idle"}}},
			{"Streaming", server, []tr{{4, -1, "Streaming"}, {5, -1, "Idle"}}},
			{"Done", none, nil},
		}},
		{"tx-submission2", "Init", []st{
			{"Init", client, []tr{{6, -1, "Idle"}}},
			{"Idle", server, []tr{{0, 1, "TxIdsBlocking"}, {0, 0, "TxIdsNonBlocking"}, {2, -1, "Txs"}}},
			{"TxIdsBlocking", client, []tr{{1, -1, "Idle"}, {4, -1, "Done"}}},
			{"TxIdsNonBlocking", client, []tr{{1, -1, "Idle"}}},
			{"Txs", client, []tr{{3, -1, "Idle"}}},
			{"Done", none, nil},
		}},
		{"keep-alive", "Client", []st{
			{"Client", client, []tr{{0, -1, "Server"}, {2, -1, "Done"}}},
			{"Server", server, []tr{{1, -1, "Client"}}},
			{"Done", none, nil},
		}},
		{"local-tx-submission", "Idle", []st{
			{"Idle", client, []tr{{0, -1, "Busy"}, {3, -1, "Done"}}},
			{"Busy", server, []tr{{1, -1, "Idle"}, {2, -1, "Idle"}}},
			{"Done", none, nil},
		}},
		{"local-state-query", "Idle", []st{
			{"Idle", client, []tr{{0, -1, "Acquiring"}, {8, -1, "Acquiring"}, {10, -1, "Acquiring"}, {7, -1, "Done"}}},
			{"Acquiring", server, []tr{{1, -1, "Acquired"}, {2, -1, "Idle"}}},
			{"Acquired", client, []tr{{3, -1, "Querying"}, {6, -1, "Acquiring"}, {9, -1, "Acquiring"}, {11, -1, "Acquiring"}, {5, -1, "Idle"}}},
			{"Querying", server, []tr{{4, -1, "Acquired"}}},
			{"Done", none, nil},
		}},
		{"local-tx-monitor", "Idle", []st{
			{"Idle", client, []tr{{1, -1, "Acquiring"}, {0, -1, "Done"}}},
			{"Acquiring", server, []tr{{2, -1, "Acquired"}}},
			{"Acquired", client, []tr{{1, -1, "Acquiring"}, {3, -1, "Idle"}, {5, -1, "BusyNextTx"}, {7, -1, "BusyHasTx"}, {9, -1, "BusyGetSizes"}}},
			{"BusyNextTx", server, []tr{{6, -1, "Acquired"}}},
			{"BusyHasTx", server, []tr{{8, -1, "Acquired"}}},
			{"BusyGetSizes", server, []tr{{10, -1, "Acquired"}}},
			{"Done", none, nil},
		}},
		{"peer-sharing", "Idle", []st{
			{"Idle", client, []tr{{0, -1, "Busy"}, {2, -1, "Done"}}},
			{"Busy", server, []tr{{1, -1, "Idle"}}},
			{"Done", none, nil},
		}},
	}
}

type impl struct {
	sm      protocol.StateMap
	initial protocol.State
	decode  func(uint, []byte) (protocol.Message, error)
	guarded map[uint8]bool // message types whose transition has a guard on the message
}

func impls() []impl {
	return []impl{
		{handshake.StateMapNtN, handshake.VerifInitialState(), handshake.NewMsgFromCbor, nil},
		{handshake.StateMapNtC, handshake.VerifInitialState(), handshake.NewMsgFromCbor, nil},
		{chainsync.StateMapNtN, chainsync.VerifInitialState(), chainsync.NewMsgFromCborNtN, nil},
		{chainsync.StateMapNtC, chainsync.VerifInitialState(), chainsync.NewMsgFromCborNtC, nil},
		{blockfetch.StateMap, blockfetch.VerifInitialState(), blockfetch.NewMsgFromCbor, nil},
		{txsubmission.StateMap, txsubmission.VerifInitialState(), txsubmission.NewMsgFromCbor, map[uint8]bool{0: true}},
		{keepalive.StateMap, keepalive.VerifInitialState(), keepalive.NewMsgFromCbor, nil},
		{localtxsubmission.StateMap, localtxsubmission.VerifInitialState(), localtxsubmission.NewMsgFromCbor, nil},
		{localstatequery.StateMap, localstatequery.VerifInitialState(), localstatequery.NewMsgFromCbor, nil},
		{localtxmonitor.StateMap, localtxmonitor.VerifInitialState(), localtxmonitor.NewMsgFromCbor, nil},
		{peersharing.StateMap, peersharing.VerifInitialState(), peersharing.NewMsgFromCbor, nil},
	}
}

const maxMsgType = 13

// message builds the message handed to the real nextState: the generic base message, or the
// real message struct where the implementation's transition guard inspects it.
func message(proto int, t uint8, variant int) protocol.Message {
	if proto == 5 && t == txsubmission.MessageTypeRequestTxIds {
		m := &txsubmission.MsgRequestTxIds{Blocking: variant == 1}
		m.MessageType = t
		return m
	}
	return &protocol.MessageBase{MessageType: t}
}

func (a automaton) state(name string) st {
	for _, s := range a.states {
		if s.name == name {
			return s
		}
	}
	panic("spec: unknown state " + name)
}

func (s st) next(t uint8, variant int) (string, bool) {
	for _, x := range s.trans {
		if x.msg == t && (x.variant == -1 || x.variant == variant) {
			return x.to, true
		}
	}
	return "", false
}

type pair struct {
	impl protocol.State
	spec string
}

// Product explores the product of the implementation's state map (through the real
// nextState) with the specification automaton from the pair of initial states until closure.
func Product() {
	p := sym.Param("proto")
	spec, im := specs()[p], impls()[p]
	work := []pair{{im.initial, spec.initial}}
	seen := []pair{work[0]}
	for len(work) > 0 {
		cur := work[0]
		work = work[1:]
		ss := spec.state(cur.spec)
		entry, ok := im.sm[cur.impl]
		where := spec.name + " state " + cur.spec + " (impl " + cur.impl.Name + ")"
		sym.Check(ok, "every reachable implementation state has a state-map entry: "+where)
		sym.Check(int(entry.Agency) == ss.agency, "agency matches the specification in "+where)
		sym.Check((len(entry.Transitions) == 0) == (len(ss.trans) == 0), "terminal states coincide: "+where)
		for t := 0; t <= maxMsgType; t++ {
			variants := []int{-1}
			if im.guarded[uint8(t)] {
				variants = []int{0, 1}
			}
			for _, v := range variants {
				implNext, err := protocol.VerifNextState(im.sm, nil, cur.impl, message(p, uint8(t), v))
				specNext, allowed := ss.next(uint8(t), v)
				sym.Check((err == nil) == allowed, "message "+string(rune('A'+t))+" (type "+string(rune('a'+t))+") is accepted exactly when the specification permits it in "+where)
				if err != nil || !allowed {
					continue
				}
				np := pair{implNext, specNext}
				dup := false
				for _, q := range seen {
					if q.impl == np.impl && q.spec == np.spec {
						dup = true
					}
					// the correspondence between implementation and specification states is one-to-one
					if q.impl == np.impl && q.spec != np.spec {
						sym.Check(false, spec.name+": implementation state "+np.impl.Name+" stands for two specification states ("+q.spec+", "+np.spec+")")
					}
					if q.impl != np.impl && q.spec == np.spec {
						sym.Check(false, spec.name+": specification state "+np.spec+" is split over two implementation states")
					}
				}
				if !dup {
					seen = append(seen, np)
					work = append(work, np)
				}
			}
		}
	}
	sym.Reach("closed")
	sym.Check(len(seen) == len(spec.states), spec.name+": every specification state is reached exactly once in the product")
	sym.Check(len(im.sm) == len(spec.states), spec.name+": the implementation has exactly the specification's states")
}

// Codec: every message type some transition permits is one the protocol's codec decodes;
// a type no transition permits anywhere (and the codec does not know) is rejected.
func Codec() {
	p := sym.Param("proto")
	spec, im := specs()[p], impls()[p]
	data := sym.Bytes("msg", 3)
	for t := 0; t <= maxMsgType; t++ {
		permitted := false
		for _, s := range spec.states {
			for _, x := range s.trans {
				if int(x.msg) == t {
					permitted = true
				}
			}
		}
		_, err := im.decode(uint(t), data)
		if permitted {
			known := err == nil || !strings.Contains(err.Error(), "unknown message type")
			sym.Check(known, spec.name+": the codec knows message type "+string(rune('a'+t))+" that the state machine permits")
		}
	}
	sym.Reach("closed")
}
