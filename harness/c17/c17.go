// Package c17: connection set-up starts mini-protocols only for the negotiated roles.
package c17

import (
	"io"
	"net"
	"time"

	"verifharness/sym"

	ouroboros "github.com/blinklabs-io/gouroboros"
	"github.com/blinklabs-io/gouroboros/muxer"
	"github.com/blinklabs-io/gouroboros/protocol"
	"github.com/blinklabs-io/gouroboros/protocol/handshake"
)

var Registry = map[string]func(){
	"Setup": Setup,
}

type addr struct{}

func (addr) Network() string { return "stub" }
func (addr) String() string  { return "stub" }

// a connection that never delivers anything (natively: reads block until closed)
type idleConn struct{ closed chan struct{} }

func (c *idleConn) Read(p []byte) (int, error) {
	<-c.closed
	return 0, io.EOF
}
func (c *idleConn) Write(p []byte) (int, error)      { return len(p), nil }
func (c *idleConn) Close() error                     { return nil }
func (c *idleConn) LocalAddr() net.Addr              { return addr{} }
func (c *idleConn) RemoteAddr() net.Addr             { return addr{} }
func (c *idleConn) SetDeadline(time.Time) error      { return nil }
func (c *idleConn) SetReadDeadline(time.Time) error  { return nil }
func (c *idleConn) SetWriteDeadline(time.Time) error { return nil }

// Setup: the real connection set-up (NewConnection -> setupConnection) for a node-to-node
// connection, with the handshake replaced by its outcome: we are client or server, asked for
// full duplex or not, the peer advertised InitiatorAndResponder or not (all symbolic), for
// the negotiated version given as parameter. Afterwards the muxer has receivers registered
// for the initiator side of the mini-protocols iff we are the client or full duplex was
// negotiated (both sides asked for it), for the responder side iff we are the server or full
// duplex was negotiated -- never for a role the negotiation did not enable -- and chain-sync,
// block-fetch and tx-submission are reachable in every enabled role.
func Setup() {
	version := uint16(sym.Param("version"))
	server, wantDuplex, peerDuplex := sym.Bool("we_are_server"), sym.Bool("we_ask_full_duplex"), sym.Bool("peer_advertises_full_duplex")
	if !sym.Symbolic() {
		setupNative(server, wantDuplex, peerDuplex)
		return
	}
	mode := protocol.DiffusionModeInitiatorOnly
	if peerDuplex {
		mode = protocol.DiffusionModeInitiatorAndResponder
	}
	vmap := protocol.GetProtocolVersionMap(protocol.ProtocolModeNodeToNode, 42, mode, false, false)
	vd, known := vmap[version]
	sym.Assume(known)
	handshake.VerifOutcomeVersion, handshake.VerifOutcomeData = version, vd
	conn, err := ouroboros.NewConnection(
		ouroboros.WithConnection(&idleConn{closed: make(chan struct{})}),
		ouroboros.WithNetworkMagic(42),
		ouroboros.WithNodeToNode(true),
		ouroboros.WithServer(server),
		ouroboros.WithFullDuplex(wantDuplex),
	)
	sym.Reach("set-up")
	sym.Assert(err == nil && conn != nil, "set-up succeeds once the handshake has finished")
	judge(conn, server, wantDuplex, peerDuplex)
}

// setupNative: the same question asked of two real connections that shake hands over a pipe
// (the peer is a real Connection in the opposite role advertising the given diffusion mode).
func setupNative(server, wantDuplex, peerDuplex bool) {
	a, b := net.Pipe()
	defer a.Close()
	defer b.Close()
	peerDone := make(chan *ouroboros.Connection, 1)
	go func() {
		p, _ := ouroboros.NewConnection(ouroboros.WithConnection(b), ouroboros.WithNetworkMagic(42), ouroboros.WithNodeToNode(true),
			ouroboros.WithServer(!server), ouroboros.WithFullDuplex(peerDuplex))
		peerDone <- p
	}()
	type res struct {
		c   *ouroboros.Connection
		err error
	}
	mine := make(chan res, 1)
	go func() {
		c, err := ouroboros.NewConnection(ouroboros.WithConnection(a), ouroboros.WithNetworkMagic(42), ouroboros.WithNodeToNode(true),
			ouroboros.WithServer(server), ouroboros.WithFullDuplex(wantDuplex))
		mine <- res{c, err}
	}()
	select {
	case r := <-mine:
		sym.Reach("set-up")
		sym.Assert(r.err == nil && r.c != nil, "set-up succeeds once the handshake has finished")
		judge(r.c, server, wantDuplex, peerDuplex)
		r.c.Close()
	case <-time.After(10 * time.Second):
		panic("native set-up did not finish in 10 s")
	}
	select {
	case p := <-peerDone:
		if p != nil {
			p.Close()
		}
	case <-time.After(2 * time.Second):
	}
}

func judge(conn *ouroboros.Connection, server, wantDuplex, peerDuplex bool) {
	m := conn.Muxer()
	fullDuplex := wantDuplex && peerDuplex
	initiatorOn, responderOn := fullDuplex || !server, fullDuplex || server
	for _, id := range muxer.VerifRegisteredIds(m) {
		if id == 0 {
			continue // the handshake itself
		}
		if muxer.VerifIsRegistered(m, id, muxer.ProtocolRoleInitiator) {
			sym.Assert(initiatorOn, "no initiator-side mini-protocol is started unless we are the client or full duplex was negotiated")
		}
		if muxer.VerifIsRegistered(m, id, muxer.ProtocolRoleResponder) {
			sym.Assert(responderOn, "no responder-side mini-protocol is started unless we are the server or full duplex was negotiated")
		}
	}
	for _, id := range []uint16{2, 3, 4} { // chain-sync, block-fetch, tx-submission
		sym.Assert(muxer.VerifIsRegistered(m, id, muxer.ProtocolRoleInitiator) == initiatorOn, "an enabled initiator-side protocol is reachable, a disabled one is not")
		sym.Assert(muxer.VerifIsRegistered(m, id, muxer.ProtocolRoleResponder) == responderOn, "an enabled responder-side protocol is reachable, a disabled one is not")
	}
}
