// Package c20: the supported-version tables are internally consistent.
package c20

import (
	"verifharness/sym"

	"github.com/blinklabs-io/gouroboros/cbor"
	"github.com/blinklabs-io/gouroboros/protocol"
)

var Registry = map[string]func(){
	"Lists":     Lists,
	"RoundTrip": RoundTrip,
	"Eras":      Eras,
}

// Lists: NtC list = exactly the table's versions >= 0x8000, NtN list = the others, both
// strictly ascending; same for the DMQ lists.
func Lists() {
	ntc, ntn := protocol.GetProtocolVersionsNtC(), protocol.GetProtocolVersionsNtN()
	for i, v := range ntc {
		sym.Assert(v >= protocol.ProtocolVersionNtCOffset, "node-to-client list holds only node-to-client versions")
		if i > 0 {
			sym.Assert(ntc[i-1] < v, "node-to-client list is strictly ascending")
		}
	}
	for i, v := range ntn {
		sym.Assert(v < protocol.ProtocolVersionNtCOffset, "node-to-node list holds only node-to-node versions")
		if i > 0 {
			sym.Assert(ntn[i-1] < v, "node-to-node list is strictly ascending")
		}
	}
	for _, l := range [][]uint16{protocol.GetProtocolVersionsDMQNtC(), protocol.GetProtocolVersionsDMQNtN()} {
		for i := range l {
			if i > 0 {
				sym.Assert(l[i-1] < l[i], "DMQ version list is strictly ascending")
			}
		}
	}
	// every version of the handshake maps appears in the corresponding list and vice versa
	m := protocol.GetProtocolVersionMap(protocol.ProtocolModeNodeToClient, 1, false, false, false)
	sym.Assert(len(m) == len(ntc), "node-to-client version map and list have the same versions")
	for _, v := range ntc {
		_, ok := m[v]
		sym.Assert(ok, "every listed node-to-client version has version data")
	}
	m = protocol.GetProtocolVersionMap(protocol.ProtocolModeNodeToNode, 1, false, false, false)
	sym.Assert(len(m) == len(ntn), "node-to-node version map and list have the same versions")
	for _, v := range ntn {
		_, ok := m[v]
		sym.Assert(ok, "every listed node-to-node version has version data")
	}
	sym.Reach("decided")
}

// versions of table t: 0 NtC, 1 NtN, 2 DMQ NtC, 3 DMQ NtN
func table(t int, magic uint32, diffusion, peerSharing, query bool) ([]uint16, protocol.ProtocolVersionMap) {
	switch t {
	case 0:
		return protocol.GetProtocolVersionsNtC(), protocol.GetProtocolVersionMap(protocol.ProtocolModeNodeToClient, magic, diffusion, peerSharing, query)
	case 1:
		return protocol.GetProtocolVersionsNtN(), protocol.GetProtocolVersionMap(protocol.ProtocolModeNodeToNode, magic, diffusion, peerSharing, query)
	case 2:
		return protocol.GetProtocolVersionsDMQNtC(), protocol.GetProtocolVersionMapDMQNtC(magic, query)
	}
	return protocol.GetProtocolVersionsDMQNtN(), protocol.GetProtocolVersionMapDMQNtN(magic, diffusion, peerSharing, query)
}

// RoundTrip: for every version, the generated version data encodes and decodes with that
// version's own decoder to the same accessor values; where the version's wire format carries
// a flag the decoded flag equals the input.
func RoundTrip() {
	t, idx := sym.Param("table"), sym.Param("index")
	magic := sym.U32("magic")
	diffusion, peerSharing, query := sym.Bool("diffusion"), sym.Bool("peer_sharing"), sym.Bool("query")
	versions, m := table(t, magic, diffusion, peerSharing, query)
	if idx >= len(versions) {
		return
	}
	v := versions[idx]
	gen, ok := m[v]
	sym.Assert(ok, "the version has generated version data")
	cbor.VerifDepositValue = gen
	data, err := cbor.Encode(gen)
	sym.Assume(err == nil)
	dec, err := protocol.GetProtocolVersion(v).NewVersionDataFromCborFunc(data)
	sym.Reach("decided")
	sym.Assert(err == nil, "generated version data decodes with the version's own decoder")
	sym.ObsU64("magic", uint64(dec.NetworkMagic()))
	sym.Assert(dec.NetworkMagic() == magic, "network magic survives the round trip")
	sym.Assert(dec.DiffusionMode() == gen.DiffusionMode() && dec.PeerSharing() == gen.PeerSharing() && dec.Query() == gen.Query(),
		"decoded accessors equal the generated value's")
	ntc := t == 0 || t == 2
	num := v &^ protocol.ProtocolVersionNtCOffset
	if !ntc {
		sym.Assert(dec.DiffusionMode() == diffusion, "diffusion mode survives (node-to-node)")
		if t == 3 || num >= 11 {
			sym.Assert(dec.PeerSharing() == peerSharing, "peer sharing survives (node-to-node v11+)")
			sym.Assert(dec.Query() == query, "query flag survives (node-to-node v11+)")
		}
	} else if t == 2 || num >= 15 {
		sym.Assert(dec.Query() == query, "query flag survives (node-to-client v15+)")
	}
}

// Eras: the eras a version enables form a prefix of the era sequence, and the prefix never
// shrinks as the version number grows within a table.
func Eras() {
	for _, list := range [][]uint16{protocol.GetProtocolVersionsNtC(), protocol.GetProtocolVersionsNtN()} {
		prev := 0
		for _, v := range list {
			pv := protocol.GetProtocolVersion(v)
			flags := []bool{pv.EnableShelleyEra, pv.EnableAllegraEra, pv.EnableMaryEra, pv.EnableAlonzoEra, pv.EnableBabbageEra, pv.EnableConwayEra, pv.EnableDijkstraEra}
			n := 0
			for n < len(flags) && flags[n] {
				n++
			}
			for _, f := range flags[n:] {
				sym.Assert(!f, "enabled eras form a prefix of the era sequence")
			}
			sym.Assert(n >= prev, "enabled eras never shrink as versions increase")
			prev = n
		}
	}
	sym.Reach("decided")
}
