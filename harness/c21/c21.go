// Package c21: chain-sync never has more requests outstanding than its pipeline limit.
package c21

import (
	"net"

	"verifharness/sym"

	"github.com/blinklabs-io/gouroboros/connection"
	"github.com/blinklabs-io/gouroboros/protocol"
	"github.com/blinklabs-io/gouroboros/protocol/chainsync"
	pcommon "github.com/blinklabs-io/gouroboros/protocol/common"
)

var Registry = map[string]func(){
	"Pipelining": Pipelining,
	"AtTip":      AtTip,
}

// AtTip: the real sync loop and the real message handler, scheduled cooperatively, against a
// server that answers each RequestNext either directly (RollBackward) or with AwaitReply
// first (the client is at the tip) -- a nondeterministic choice per request. Whenever the
// server looks at the wire, the requests sent and not yet answered by a RollForward/
// RollBackward are at most max(limit, 1), and only RequestNext was sent.
func AtTip() {
	limit, replies := sym.Param("limit"), sym.Param("replies")
	cfg := chainsync.NewConfig()
	cfg.PipelineLimit = limit
	rolled := 0
	cfg.RollBackwardFunc = func(chainsync.CallbackContext, pcommon.Point, chainsync.Tip) error { rolled++; return nil }
	c := chainsync.VerifNewClient(&cfg, connection.ConnectionId{LocalAddr: net.Addr(addr{}), RemoteAddr: net.Addr(addr{})})
	sym.Assume(chainsync.VerifStartSync(c) == nil)
	bound := limit
	if bound < 1 {
		bound = 1
	}
	inbox := make(chan protocol.Message, 4)
	handlerErr := false
	handler := func() {
		for m := range inbox {
			if chainsync.VerifClientHandle(c, m) != nil {
				handlerErr = true
			}
		}
	}
	outstanding, answered, awaited, turns := 0, 0, false, 0
	env := func() bool {
		turns++
		for _, m := range protocol.VerifDrainSent(c.Protocol) {
			sym.Assert(m.Type() == chainsync.MessageTypeRequestNext, "the sync loop only sends RequestNext")
			outstanding++
		}
		sym.Assert(outstanding <= bound, "no more requests are outstanding than the pipeline limit")
		if answered == replies {
			if answered >= 0 {
				close(inbox)
				answered = -1
				return true
			}
			return false
		}
		if answered < 0 {
			return false
		}
		if sym.Symbolic() {
			// (under the executor the server only looks when the client is blocked; natively it
			// may look while the client is still about to send)
			sym.Assert(outstanding >= 1, "a syncing client always has a request outstanding")
		} else if outstanding == 0 {
			turns--
			return false // nothing to answer yet
		}
		if !awaited && sym.Bool("await_first_"+string(rune('a'+turns))) {
			awaited = true // the client is at the tip: AwaitReply, the request stays outstanding
			inbox <- chainsync.NewMsgAwaitReply()
			return true
		}
		awaited = false
		outstanding--
		answered++
		inbox <- chainsync.NewMsgRollBackward(pcommon.Point{}, chainsync.Tip{})
		return true
	}
	sym.RunGoroutines(env, func() { chainsync.VerifSyncLoop(c) }, handler)
	sym.Reach("ran")
	sym.Assert(!handlerErr && rolled == replies, "every reply is handled")
}

type addr struct{}

func (addr) Network() string { return "stub" }
func (addr) String() string  { return "stub" }

// Pipelining: the sync loop is stepped once per "ready" token (the first token starts the
// sync, every later one stands for a server reply that has been processed). After every
// step: only RequestNext messages were sent, and the number of requests outstanding (sent
// and not yet answered) is between 1 and max(limit, 1).
func Pipelining() {
	steps := sym.Param("steps")
	limit := sym.Int("pipeline_limit")
	sym.Assume(limit >= 0 && limit <= sym.Param("max_limit"))
	cfg := chainsync.NewConfig()
	cfg.PipelineLimit = limit
	c := chainsync.VerifNewClient(&cfg, connection.ConnectionId{LocalAddr: net.Addr(addr{}), RemoteAddr: net.Addr(addr{})})
	bound := limit
	if bound < 1 {
		bound = 1
	}
	outstanding := 0
	for i := 0; i < steps; i++ {
		if i > 0 {
			outstanding-- // a reply was received and processed
		}
		chainsync.VerifSyncStep(c, true)
		sent := protocol.VerifDrainSent(c.Protocol)
		for _, m := range sent {
			sym.Assert(m.Type() == chainsync.MessageTypeRequestNext, "the sync loop only sends RequestNext")
		}
		outstanding += len(sent)
		sym.Assert(outstanding >= 1, "a syncing client always has a request outstanding")
		sym.Assert(outstanding <= bound, "no more requests are outstanding than the pipeline limit")
	}
	sym.ObsInt("outstanding", outstanding)
	sym.Reach("stepped")
	// a cancelled sync (false token) sends nothing more
	chainsync.VerifSyncStep(c, false)
	sym.Assert(len(protocol.VerifDrainSent(c.Protocol)) == 0, "a cancelled sync sends nothing")
}
