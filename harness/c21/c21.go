// Package c21: chain-sync never has more requests outstanding than its pipeline limit.
package c21

import (
	"net"

	"verifharness/sym"

	"github.com/blinklabs-io/gouroboros/connection"
	"github.com/blinklabs-io/gouroboros/protocol"
	"github.com/blinklabs-io/gouroboros/protocol/chainsync"
)

var Registry = map[string]func(){
	"Pipelining": Pipelining,
}

type addr struct{}

func (addr) Network() string { return "stub" }
func (addr) String() string  { return "stub" }

// Pipelining: the sync loop is stepped once per "ready" token (the first token starts the
// sync, every later one stands for a server reply that has been processed). After every
// step: only RequestNext messages were sent, and the number of requests outstanding (sent
// and not yet answered) is between 1 and max(limit, 1).
func Pipelining() {
	steps := sym.Param("steps")
	limit := sym.Int("pipeline_limit")
	sym.Assume(limit >= 0 && limit <= sym.Param("max_limit"))
	cfg := chainsync.NewConfig()
	cfg.PipelineLimit = limit
	c := chainsync.VerifNewClient(&cfg, connection.ConnectionId{LocalAddr: net.Addr(addr{}), RemoteAddr: net.Addr(addr{})})
	bound := limit
	if bound < 1 {
		bound = 1
	}
	outstanding := 0
	for i := 0; i < steps; i++ {
		if i > 0 {
			outstanding-- // a reply was received and processed
		}
		chainsync.VerifSyncStep(c, true)
		sent := protocol.VerifDrainSent(c.Protocol)
		for _, m := range sent {
			sym.Assert(m.Type() == chainsync.MessageTypeRequestNext, "the sync loop only sends RequestNext")
		}
		outstanding += len(sent)
		sym.Assert(outstanding >= 1, "a syncing client always has a request outstanding")
		sym.Assert(outstanding <= bound, "no more requests are outstanding than the pipeline limit")
	}
	sym.ObsInt("outstanding", outstanding)
	sym.Reach("stepped")
	// a cancelled sync (false token) sends nothing more
	chainsync.VerifSyncStep(c, false)
	sym.Assert(len(protocol.VerifDrainSent(c.Protocol)) == 0, "a cancelled sync sends nothing")
}
