// Package c23: block-fetch returns the blocks that were asked for.
package c23

import (
	"bytes"
	"encoding/hex"
	"net"
	"os"
	"strings"

	"verifharness/sym"

	"github.com/blinklabs-io/gouroboros/cbor"
	"github.com/blinklabs-io/gouroboros/connection"
	"github.com/blinklabs-io/gouroboros/ledger"
	"github.com/blinklabs-io/gouroboros/ledger/common"
	"github.com/blinklabs-io/gouroboros/ledger/shelley"
	"github.com/blinklabs-io/gouroboros/protocol"
	"github.com/blinklabs-io/gouroboros/protocol/blockfetch"
	pcommon "github.com/blinklabs-io/gouroboros/protocol/common"
)

var Registry = map[string]func(){
	"GetBlock": GetBlock,
	"NoBlocks": NoBlocks,
}

type addr struct{}

func (addr) Network() string { return "stub" }
func (addr) String() string  { return "stub" }

func connId() connection.ConnectionId {
	return connection.ConnectionId{LocalAddr: net.Addr(addr{}), RemoteAddr: net.Addr(addr{})}
}

func fixture() []byte {
	raw, err := os.ReadFile("/repo/internal/testdata/shelley_block.hex")
	if err != nil {
		panic(err)
	}
	b, err := hex.DecodeString(strings.TrimSpace(string(raw)))
	if err != nil {
		panic(err)
	}
	return b
}

// GetBlock: the server answers StartBatch, Block, BatchDone; the block it serves has the
// requested hash or not (symbolic). A successful return carries a block whose hash is the
// requested point's hash.
func GetBlock() {
	cfg, _ := blockfetch.NewConfig()
	cfg.SkipBlockValidation = true // body-hash binding is C34's subject
	c := blockfetch.VerifNewClient(&cfg, connId())
	matches := sym.Bool("served_block_matches")
	sameSlot := sym.Bool("served_block_in_requested_slot")
	point := pcommon.Point{Slot: sym.U64("slot"), Hash: sym.Bytes("requested_hash", 32)}
	var wrapped []byte
	if sym.Symbolic() {
		// the served block: a Shelley block whose header bytes are symbolic; its hash is the
		// (idealised) hash of those bytes
		blk := &shelley.ShelleyBlock{BlockHeader: &shelley.ShelleyBlockHeader{}}
		blk.BlockHeader.SetCbor(sym.Bytes("served_header", 4))
		blk.BlockHeader.Body.Slot = sym.U64("served_slot")
		sym.Assume((blk.BlockHeader.Body.Slot == point.Slot) == sameSlot)
		h := blk.Hash()
		sym.Assume(bytes.Equal(h[:], point.Hash) == matches)
		raw := []byte{0x84, 0, 0, 0, 0}
		cbor.VerifDepositFor(raw, blk)
		wb := blockfetch.WrappedBlock{Type: ledger.BlockTypeShelley, RawBlock: raw}
		wrapped = []byte{0x82, 0x02, 0x00}
		cbor.VerifDepositFor(wrapped, &wb)
	} else {
		raw := fixture()
		real, err := ledger.NewBlockFromCbor(ledger.BlockTypeShelley, raw)
		if err != nil {
			panic(err)
		}
		if sameSlot {
			point.Slot = real.SlotNumber()
		} else if point.Slot == real.SlotNumber() {
			point.Slot++
		}
		if matches {
			point.Hash = real.Hash().Bytes()
		} else if common.NewBlake2b256(point.Hash) == real.Hash() {
			point.Hash[0] ^= 1
		}
		wb := blockfetch.WrappedBlock{Type: ledger.BlockTypeShelley, RawBlock: raw}
		var err2 error
		wrapped, err2 = cbor.Encode(wb)
		if err2 != nil {
			panic(err2)
		}
	}
	// the server's replies, through the real handlers
	sym.Assume(blockfetch.VerifClientHandle(c, blockfetch.NewMsgStartBatch()) == nil)
	sym.Assume(blockfetch.VerifClientHandle(c, blockfetch.NewMsgBlock(wrapped)) == nil)
	sym.Assume(blockfetch.VerifClientHandle(c, blockfetch.NewMsgBatchDone()) == nil)
	blk, err := c.GetBlock(point)
	sent := protocol.VerifDrainSent(c.Protocol)
	sym.ObsBool("ok", err == nil)
	sym.Reach("returned")
	sym.Assert(len(sent) == 1 && sent[0].Type() == blockfetch.MessageTypeRequestRange, "GetBlock sends one range request")
	if err == nil {
		sym.Reach("ok")
		sym.Assert(blk != nil, "a successful GetBlock returns a block")
		sym.Assert(matches, "a successful GetBlock returns only a block whose hash is the requested point's hash")
	} else {
		sym.Assert(!matches, "a matching block is returned, not an error")
	}
}

// NoBlocks: a server that has no block makes the call fail.
func NoBlocks() {
	cfg, _ := blockfetch.NewConfig()
	c := blockfetch.VerifNewClient(&cfg, connId())
	sym.Assume(blockfetch.VerifClientHandle(c, blockfetch.NewMsgNoBlocks()) == nil)
	blk, err := c.GetBlock(pcommon.Point{Slot: sym.U64("slot"), Hash: sym.Bytes("requested_hash", 32)})
	sym.Reach("returned")
	sym.Assert(err != nil && blk == nil, "NoBlocks makes GetBlock fail")
}
