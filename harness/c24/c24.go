// Package c24: tx-submission keeps its acknowledgement window consistent.
package c24

import (
	"errors"
	"net"

	"verifharness/sym"

	"github.com/blinklabs-io/gouroboros/connection"
	"github.com/blinklabs-io/gouroboros/protocol"
	"github.com/blinklabs-io/gouroboros/protocol/txsubmission"
)

var Registry = map[string]func(){
	"Window":   Window,
	"Outbound": Outbound,
}

type addr struct{}

func (addr) Network() string { return "stub" }
func (addr) String() string  { return "stub" }

func connId() connection.ConnectionId {
	return connection.ConnectionId{LocalAddr: net.Addr(addr{}), RemoteAddr: net.Addr(addr{})}
}

// reply lengths the peer may answer with (chosen by a symbolic selector per call)
var replyLens = []int{0, 1, 2, 3}

// Window: over a history of K RequestTxIds calls with arbitrary request counts and replies
// of arbitrary length (or Done), every request sent acknowledges no more ids than were
// received and not yet acknowledged, counts on the wire are within 0..65535, and a call with
// an out-of-range count fails without sending anything.
func Window() {
	k := sym.Param("calls")
	big := sym.Param("big_reply") // length of one oversized reply (0: none)
	cfg := txsubmission.NewConfig()
	s := txsubmission.VerifNewServer(&cfg, connId())
	outstanding := 0 // ghost: ids received and not yet acknowledged
	for i := 0; i < k; i++ {
		name := string(rune('0' + i))
		req := sym.Int("req" + name)
		blocking := sym.Bool("blocking" + name)
		// the peer's answer, queued through the real reply handler
		n := 0
		done := false
		if sym.Bool("done" + name) {
			done = true
			txsubmission.VerifInjectDone(s)
		} else {
			sel := sym.U8("reply_len" + name)
			sym.Assume(int(sel) < len(replyLens)+1)
			n = big
			for j, l := range replyLens {
				if int(sel) == j {
					n = l
				}
			}
			m := txsubmission.NewMsgReplyTxIds(make([]txsubmission.TxIdAndSize, n))
			sym.Assume(txsubmission.VerifServerHandle(s, m) == nil)
		}
		ids, err := s.RequestTxIds(blocking, req)
		sent := protocol.VerifDrainSent(s.Protocol)
		if req < 0 || req > 65535 || txsubmission.VerifServerAck(s) > 65535 && err != nil && len(sent) == 0 {
			sym.Reach("rejected")
			sym.Assert(err != nil && len(sent) == 0, "an out-of-range count fails the call without sending")
			return
		}
		sym.Assert(len(sent) == 1, "a request call sends exactly one message")
		m := sent[0].(*txsubmission.MsgRequestTxIds)
		sym.ObsU64("ack"+name, uint64(m.Ack))
		sym.Assert(int(m.Ack) <= outstanding, "the acknowledgement never exceeds the ids received and not yet acknowledged")
		sym.Assert(int(m.Req) == req && m.Blocking == blocking, "the request carries the caller's count and mode")
		outstanding -= int(m.Ack)
		if done {
			sym.Reach("done")
			sym.Assert(err != nil && ids == nil, "a Done answer ends the call with an error")
			return
		}
		sym.Assert(err == nil && len(ids) == n, "the call returns the ids of the reply")
		outstanding += n
	}
	sym.Reach("completed")
}

var errOther = errors.New("callback failed")

// Outbound: the outbound side answers a request with ReplyTxIds, ends the protocol (Done)
// only in answer to a blocking request, and reports callback errors.
func Outbound() {
	blocking := sym.Bool("blocking")
	mode := sym.U8("callback") // 0 ids, 1 stop, 2 other error
	sym.Assume(mode <= 2)
	var gotAck, gotReq uint16
	cfg := txsubmission.NewConfig(txsubmission.WithRequestTxIdsFunc(
		func(_ txsubmission.CallbackContext, b bool, ack, req uint16) ([]txsubmission.TxIdAndSize, error) {
			gotAck, gotReq = ack, req
			switch mode {
			case 1:
				return nil, txsubmission.ErrStopServerProcess
			case 2:
				return nil, errOther
			}
			return make([]txsubmission.TxIdAndSize, 2), nil
		}))
	c := txsubmission.VerifNewClient(&cfg, connId())
	ack, req := sym.U16("ack"), sym.U16("req")
	err := txsubmission.VerifClientHandle(c, txsubmission.NewMsgRequestTxIds(blocking, ack, req))
	sent := protocol.VerifDrainSent(c.Protocol)
	sym.Reach("handled")
	sym.Assert(gotAck == ack && gotReq == req, "the callback sees the counts of the request")
	switch {
	case mode == 0:
		sym.Assert(err == nil && len(sent) == 1 && sent[0].Type() == txsubmission.MessageTypeReplyTxIds, "ids are answered with ReplyTxIds")
	case mode == 1 && blocking:
		sym.Assert(err == nil && len(sent) == 1 && sent[0].Type() == txsubmission.MessageTypeDone, "a blocking request may be answered with Done")
	case mode == 1:
		sym.Assert(err != nil && len(sent) == 0, "Done is never sent in answer to a non-blocking request")
	default:
		sym.Assert(err != nil && len(sent) == 0, "a callback error is reported and nothing is sent")
	}
}
