// Package c25: local request/response calls get their own answers.
package c25

import (
	"net"
	"sync"
	"time"

	"verifharness/sym"

	"github.com/blinklabs-io/gouroboros/cbor"
	"github.com/blinklabs-io/gouroboros/connection"
	"github.com/blinklabs-io/gouroboros/protocol"
	"github.com/blinklabs-io/gouroboros/protocol/localstatequery"
	"github.com/blinklabs-io/gouroboros/protocol/localtxmonitor"
	"github.com/blinklabs-io/gouroboros/protocol/peersharing"
)

var Registry = map[string]func(){
	"StateQuery":  StateQuery,
	"TxMonitor":   TxMonitor,
	"PeerSharing": PeerSharing,
}

// StateQuery: one caller walks through acquire, query, (re-acquire | release + acquire |
// nothing), query on the real local-state-query client while a second goroutine runs the
// message handler; the server answers every query with a fresh number (5, 6, ...). Every call
// that asks for the current era sends a query of its own and returns the answer to it -- in
// particular never an answer obtained before a re-acquire.
func StateQuery() {
	between := sym.Param("between") // 0 nothing, 1 re-acquire, 2 release then acquire
	c := localstatequery.VerifNewClient(connID())
	inbox := make(chan protocol.Message, 4)
	handlerErr := false
	handler := func() {
		for m := range inbox {
			if localstatequery.VerifClientHandle(c, m) != nil {
				handlerErr = true
			}
		}
	}
	var era1, era2 int
	var errs []error
	finished := false
	caller := func() {
		errs = append(errs, c.Acquire(nil))
		e, err := c.GetCurrentEra()
		era1, errs = e, append(errs, err)
		switch between {
		case 1:
			errs = append(errs, c.Acquire(nil))
		case 2:
			errs = append(errs, c.Release(), c.Acquire(nil))
		}
		e, err = c.GetCurrentEra()
		era2, errs = e, append(errs, err)
		finished = true
	}
	queries := 0
	closed := false
	env := func() bool {
		m := protocol.VerifTakeSent(c.Protocol)
		if m == nil {
			if finished && !closed {
				closed = true
				close(inbox)
				return true
			}
			return false
		}
		switch m.(type) {
		case *localstatequery.MsgQuery:
			answer := 5 + queries
			queries++
			raw := []byte{byte(answer)} // CBOR unsigned integer
			if sym.Symbolic() {
				cbor.VerifDepositFor(raw, &answer)
			}
			inbox <- localstatequery.NewMsgResult(raw)
		case *localstatequery.MsgRelease:
		default: // every flavour of acquire / re-acquire
			inbox <- localstatequery.NewMsgAcquired()
		}
		return true
	}
	sym.RunGoroutines(env, caller, handler)
	sym.Reach("ran")
	sym.Assert(finished && !handlerErr, "every call returns")
	for _, e := range errs {
		sym.Assert(e == nil, "no call fails")
	}
	sym.Assert(queries == 2, "each era request is put to the server")
	sym.Assert(era1 == 5 && era2 == 6, "each call returns the answer to its own query, also across re-acquire and release")
}

func connID() connection.ConnectionId {
	return connection.ConnectionId{LocalAddr: net.Addr(addr{}), RemoteAddr: net.Addr(addr{})}
}

// peerRound: two goroutines call GetPeers(1) and GetPeers(2) on one client while a third runs
// the message handler; the server answers in wire order with as many peers as were asked
// for. Returns how many callers got an answer of the wrong size.
func peerRound(run func(env func() bool, bodies ...func()) bool, order int) (wrong int, returned int) {
	c := peersharing.VerifNewClient(connID())
	replies := make(chan protocol.Message, 4)
	got := [2]int{-1, -1}
	call := func(i int) func() {
		return func() {
			p, err := c.GetPeers(uint8(i + 1))
			if err == nil {
				got[i] = len(p)
			}
		}
	}
	handler := func() {
		for m := range replies {
			_ = peersharing.VerifClientHandle(c, m)
		}
	}
	answered := 0
	env := func() bool {
		m := protocol.VerifTakeSent(c.Protocol)
		if m == nil {
			if answered == 2 {
				close(replies)
				answered++
				return true
			}
			return false
		}
		answered++
		replies <- peersharing.NewMsgSharePeers(make([]peersharing.PeerAddress, int(m.(*peersharing.MsgShareRequest).Amount)))
		return true
	}
	if order == 0 {
		run(env, call(0), call(1), handler)
	} else {
		run(env, call(1), call(0), handler)
	}
	for i := range got {
		if got[i] >= 0 {
			returned++
			if got[i] != i+1 {
				wrong++
			}
		}
	}
	return
}

// PeerSharing: concurrent GetPeers calls get their own answers. Under the executor the two
// callers and the handler are scheduled cooperatively, a caller may lose the processor right
// after its request is queued (preempt_sends), and a value on the shared result channel goes
// to the longest-waiting receiver, as in Go. Natively the race cannot be forced, so the
// scenario is repeated 4000 times with real goroutines.
func PeerSharing() {
	order := sym.Param("order")
	rounds := 1
	if !sym.Symbolic() {
		rounds = 4000
	}
	wrong, returned := 0, 0
	for r := 0; r < rounds; r++ {
		w, n := peerRound(runner(), order)
		wrong += w
		returned += n
	}
	sym.Reach("ran")
	sym.Assert(returned == 2*rounds, "every call returns")
	sym.Assert(wrong == 0, "GetPeers returns the answer to its own request (as many peers as it asked for)")
}

// runner: the executor's cooperative scheduler, or natively plain goroutines with the
// environment polled without the quiet-period heuristic (the rounds must be fast)
func runner() func(env func() bool, bodies ...func()) bool {
	if sym.Symbolic() {
		return sym.RunGoroutines
	}
	return func(env func() bool, bodies ...func()) bool {
		var wg sync.WaitGroup
		for _, b := range bodies {
			wg.Add(1)
			go func(f func()) { defer wg.Done(); f() }(b)
		}
		done := make(chan struct{})
		go func() { wg.Wait(); close(done) }()
		for {
			select {
			case <-done:
				return false
			default:
				if !env() {
					time.Sleep(time.Microsecond)
				}
			}
		}
	}
}

type addr struct{}

func (addr) Network() string { return "stub" }
func (addr) String() string  { return "stub" }

type result struct {
	done  bool
	err   error
	has   bool
	tx    []byte
	sizes [3]uint32
}

// TxMonitor: two goroutines each make one local-tx-monitor call (HasTx / NextTx / GetSizes,
// chosen by parameters; the first call acquires) on the same client while a third runs the
// message handler, all three scheduled cooperatively. The server answers the requests in
// the order they appear on the wire and tags every answer with the request it answers: HasTx
// with a bit of the requested id, NextTx and GetSizes with the request's position on the
// wire. Every call returns, with the answer to its own request.
func TxMonitor() {
	k1, k2 := sym.Param("call1"), sym.Param("call2")
	c := localtxmonitor.VerifNewClient(connection.ConnectionId{LocalAddr: net.Addr(addr{}), RemoteAddr: net.Addr(addr{})})
	id1, id2 := sym.Bytes("id1", 2), sym.Bytes("id2", 2)
	tag := func(id []byte) bool { return id[0]&1 == 1 }
	call := func(kind int, id []byte, r *result) func() {
		return func() {
			switch kind {
			case 0:
				r.has, r.err = c.HasTx(id)
			case 1:
				r.tx, r.err = c.NextTx()
			default:
				r.sizes[0], r.sizes[1], r.sizes[2], r.err = c.GetSizes()
			}
			r.done = true
		}
	}
	var r1, r2 result
	replies := make(chan protocol.Message, 8)
	handlerErr := false
	handler := func() {
		for {
			m := <-replies
			if localtxmonitor.VerifClientHandle(c, m) != nil {
				handlerErr = true
			}
		}
	}
	var wire []uint8 // request kinds in wire order
	position := 0    // position among NextTx/GetSizes requests
	env := func() bool {
		m := protocol.VerifTakeSent(c.Protocol)
		if m == nil {
			return false
		}
		wire = append(wire, m.Type())
		switch req := m.(type) {
		case *localtxmonitor.MsgAcquire:
			replies <- localtxmonitor.NewMsgAcquired(7)
		case *localtxmonitor.MsgHasTx:
			replies <- localtxmonitor.NewMsgReplyHasTx(tag(req.TxId))
		case *localtxmonitor.MsgNextTx:
			position++
			replies <- localtxmonitor.NewMsgReplyNextTx(1, []byte{byte(position)})
		case *localtxmonitor.MsgGetSizes:
			position++
			replies <- localtxmonitor.NewMsgReplyGetSizes(uint32(position), 0, 0)
		}
		return true
	}
	// the cooperative scheduler runs the bodies in the order given: try the three rotations
	switch sym.Param("order") {
	case 0:
		sym.RunGoroutines(env, call(k1, id1, &r1), call(k2, id2, &r2), handler)
	case 1:
		sym.RunGoroutines(env, call(k2, id2, &r2), call(k1, id1, &r1), handler)
	default:
		sym.RunGoroutines(env, handler, call(k2, id2, &r2), call(k1, id1, &r1))
	}
	sym.Reach("ran")
	sym.Assert(!handlerErr, "the handler accepts every server reply")
	sym.Assert(r1.done && r2.done && r1.err == nil && r2.err == nil, "every call returns")
	acquires := 0
	for _, t := range wire {
		if t == localtxmonitor.MessageTypeAcquire {
			acquires++
		}
	}
	sym.Assert(acquires == 1 && len(wire) == 3, "one acquire, then the two requests")
	check := func(kind int, id []byte, r *result, other *result, otherKind int) {
		switch kind {
		case 0:
			sym.Assert(r.has == tag(id), "HasTx returns the answer to its own transaction id")
		case 1:
			sym.Assert(len(r.tx) == 1 && r.tx[0] >= 1 && int(r.tx[0]) <= position, "NextTx returns a NextTx answer")
			if otherKind == 1 {
				sym.Assert(len(other.tx) == 1 && r.tx[0] != other.tx[0], "two NextTx calls get two different answers")
			}
		default:
			sym.Assert(r.sizes[0] >= 1 && int(r.sizes[0]) <= position, "GetSizes returns a GetSizes answer")
			if otherKind == 2 {
				sym.Assert(r.sizes[0] != other.sizes[0], "two GetSizes calls get two different answers")
			}
		}
	}
	check(k1, id1, &r1, &r2, k2)
	check(k2, id2, &r2, &r1, k1)
}
