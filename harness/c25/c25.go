// Package c25: local request/response calls get their own answers.
package c25

import (
	"net"

	"verifharness/sym"

	"github.com/blinklabs-io/gouroboros/connection"
	"github.com/blinklabs-io/gouroboros/protocol"
	"github.com/blinklabs-io/gouroboros/protocol/localtxmonitor"
)

var Registry = map[string]func(){
	"TxMonitor": TxMonitor,
}

type addr struct{}

func (addr) Network() string { return "stub" }
func (addr) String() string  { return "stub" }

type result struct {
	done  bool
	err   error
	has   bool
	tx    []byte
	sizes [3]uint32
}

// TxMonitor: two goroutines each make one local-tx-monitor call (HasTx / NextTx / GetSizes,
// chosen by parameters; the first call acquires) on the same client while a third runs the
// message handler, all three scheduled cooperatively. The server answers the requests in
// the order they appear on the wire and tags every answer with the request it answers: HasTx
// with a bit of the requested id, NextTx and GetSizes with the request's position on the
// wire. Every call returns, with the answer to its own request.
func TxMonitor() {
	k1, k2 := sym.Param("call1"), sym.Param("call2")
	c := localtxmonitor.VerifNewClient(connection.ConnectionId{LocalAddr: net.Addr(addr{}), RemoteAddr: net.Addr(addr{})})
	id1, id2 := sym.Bytes("id1", 2), sym.Bytes("id2", 2)
	tag := func(id []byte) bool { return id[0]&1 == 1 }
	call := func(kind int, id []byte, r *result) func() {
		return func() {
			switch kind {
			case 0:
				r.has, r.err = c.HasTx(id)
			case 1:
				r.tx, r.err = c.NextTx()
			default:
				r.sizes[0], r.sizes[1], r.sizes[2], r.err = c.GetSizes()
			}
			r.done = true
		}
	}
	var r1, r2 result
	replies := make(chan protocol.Message, 8)
	handlerErr := false
	handler := func() {
		for {
			m := <-replies
			if localtxmonitor.VerifClientHandle(c, m) != nil {
				handlerErr = true
			}
		}
	}
	var wire []uint8 // request kinds in wire order
	position := 0    // position among NextTx/GetSizes requests
	env := func() bool {
		m := protocol.VerifTakeSent(c.Protocol)
		if m == nil {
			return false
		}
		wire = append(wire, m.Type())
		switch req := m.(type) {
		case *localtxmonitor.MsgAcquire:
			replies <- localtxmonitor.NewMsgAcquired(7)
		case *localtxmonitor.MsgHasTx:
			replies <- localtxmonitor.NewMsgReplyHasTx(tag(req.TxId))
		case *localtxmonitor.MsgNextTx:
			position++
			replies <- localtxmonitor.NewMsgReplyNextTx(1, []byte{byte(position)})
		case *localtxmonitor.MsgGetSizes:
			position++
			replies <- localtxmonitor.NewMsgReplyGetSizes(uint32(position), 0, 0)
		}
		return true
	}
	// the cooperative scheduler runs the bodies in the order given: try the three rotations
	switch sym.Param("order") {
	case 0:
		sym.RunGoroutines(env, call(k1, id1, &r1), call(k2, id2, &r2), handler)
	case 1:
		sym.RunGoroutines(env, call(k2, id2, &r2), call(k1, id1, &r1), handler)
	default:
		sym.RunGoroutines(env, handler, call(k2, id2, &r2), call(k1, id1, &r1))
	}
	sym.Reach("ran")
	sym.Assert(!handlerErr, "the handler accepts every server reply")
	sym.Assert(r1.done && r2.done && r1.err == nil && r2.err == nil, "every call returns")
	acquires := 0
	for _, t := range wire {
		if t == localtxmonitor.MessageTypeAcquire {
			acquires++
		}
	}
	sym.Assert(acquires == 1 && len(wire) == 3, "one acquire, then the two requests")
	check := func(kind int, id []byte, r *result, other *result, otherKind int) {
		switch kind {
		case 0:
			sym.Assert(r.has == tag(id), "HasTx returns the answer to its own transaction id")
		case 1:
			sym.Assert(len(r.tx) == 1 && r.tx[0] >= 1 && int(r.tx[0]) <= position, "NextTx returns a NextTx answer")
			if otherKind == 1 {
				sym.Assert(len(other.tx) == 1 && r.tx[0] != other.tx[0], "two NextTx calls get two different answers")
			}
		default:
			sym.Assert(r.sizes[0] >= 1 && int(r.sizes[0]) <= position, "GetSizes returns a GetSizes answer")
			if otherKind == 2 {
				sym.Assert(r.sizes[0] != other.sizes[0], "two GetSizes calls get two different answers")
			}
		}
	}
	check(k1, id1, &r1, &r2, k2)
	check(k2, id2, &r2, &r1, k1)
}
