// Package c26: transactions are accepted only inside their validity interval.
package c26

import (
	"verifharness/stubs"
	"verifharness/sym"

	"github.com/blinklabs-io/gouroboros/ledger/allegra"
	"github.com/blinklabs-io/gouroboros/ledger/alonzo"
	"github.com/blinklabs-io/gouroboros/ledger/babbage"
	"github.com/blinklabs-io/gouroboros/ledger/common"
	"github.com/blinklabs-io/gouroboros/ledger/conway"
	"github.com/blinklabs-io/gouroboros/ledger/dijkstra"
	"github.com/blinklabs-io/gouroboros/ledger/mary"
	"github.com/blinklabs-io/gouroboros/ledger/shelley"
)

var Registry = map[string]func(){
	"Shelley":    Shelley,
	"Interval":   Interval,
	"InRuleList": InRuleList,
}

// InRuleList: the interval rule executed above is a member of the era's rule list, so that
// "validation accepts" implies it accepted.
func InRuleList() {
	lists := [][]common.UtxoValidationRuleFunc{shelley.UtxoValidationRules, allegra.UtxoValidationRules, mary.UtxoValidationRules,
		alonzo.UtxoValidationRules, babbage.UtxoValidationRules, conway.UtxoValidationRules, dijkstra.UtxoValidationRules}
	era := sym.Param("era")
	sym.Reach("decided")
	if era == 0 {
		sym.Assert(stubs.InList(lists[0], shelley.UtxoValidateTimeToLive), "time-to-live rule is in Shelley's rule list")
		return
	}
	_, rules := eraTx(era, 0, 0)
	for _, r := range rules {
		sym.Assert(stubs.InList(lists[era], r), "validity interval rule is in the era's rule list")
	}
}

type rule = func(common.Transaction, uint64, common.LedgerState, common.ProtocolParameters) error

// Shelley: accepted iff slot <= ttl (the time-to-live is mandatory in Shelley).
func Shelley() {
	slot, ttl := sym.U64("slot"), sym.U64("ttl")
	tx := &shelley.ShelleyTransaction{}
	tx.Body.Ttl = ttl
	err := shelley.UtxoValidateTimeToLive(tx, slot, nil, nil)
	sym.ObsBool("accepted", err == nil)
	sym.Reach("decided")
	sym.Assert((err == nil) == (slot <= ttl), "Shelley: accepted iff slot <= ttl")
}

// eraTx builds the era's real transaction struct with the two bounds set (0 = absent, as the
// Transaction interface defines presence) and returns it with the era's interval rule(s).
func eraTx(era int, start, ttl uint64) (common.Transaction, []rule) {
	switch era {
	case 1:
		t := &allegra.AllegraTransaction{}
		t.Body.Ttl, t.Body.TxValidityIntervalStart = ttl, start
		return t, []rule{allegra.UtxoValidateOutsideValidityIntervalUtxo}
	case 2:
		t := &mary.MaryTransaction{}
		t.Body.Ttl = ttl
		if start != 0 || sym.Bool("mary_start_present") {
			t.Body.TxValidityIntervalStart = &start
		}
		return t, []rule{mary.UtxoValidateOutsideValidityIntervalUtxo}
	case 3:
		t := &alonzo.AlonzoTransaction{}
		t.Body.Ttl, t.Body.TxValidityIntervalStart = ttl, start
		return t, []rule{alonzo.UtxoValidateOutsideValidityIntervalUtxo}
	case 4:
		t := &babbage.BabbageTransaction{}
		t.Body.Ttl, t.Body.TxValidityIntervalStart = ttl, start
		return t, []rule{babbage.UtxoValidateOutsideValidityIntervalUtxo}
	case 5:
		t := &conway.ConwayTransaction{}
		t.Body.Ttl, t.Body.TxValidityIntervalStart = ttl, start
		return t, []rule{conway.UtxoValidateOutsideValidityIntervalUtxo}
	}
	t := &dijkstra.DijkstraTransaction{}
	t.Body.Ttl, t.Body.TxValidityIntervalStart = ttl, start
	// Dijkstra's rule list uses Conway's interval rule
	return t, []rule{conway.UtxoValidateOutsideValidityIntervalUtxo}
}

// Interval: from Allegra on, accepted iff (start absent or slot >= start) and (ttl absent or
// slot < ttl).
func Interval() {
	era := sym.Param("era")
	slot, start, ttl := sym.U64("slot"), sym.U64("start"), sym.U64("ttl")
	tx, rules := eraTx(era, start, ttl)
	accepted := true
	for _, r := range rules {
		if r(tx, slot, nil, nil) != nil {
			accepted = false
		}
	}
	sym.ObsBool("accepted", accepted)
	inside := (start == 0 || slot >= start) && (ttl == 0 || slot < ttl)
	sym.Reach("decided")
	sym.Assert(!accepted || inside, "accepted only inside the validity interval")
	sym.Assert(accepted || !inside, "a transaction inside its validity interval is not rejected by the interval rule")
}
