// Package c27: value is conserved by every accepted transaction.
package c27

import (
	"errors"
	"math/big"

	"verifharness/stubs"
	"verifharness/sym"

	"github.com/blinklabs-io/gouroboros/cbor"
	"github.com/blinklabs-io/gouroboros/ledger/allegra"
	"github.com/blinklabs-io/gouroboros/ledger/alonzo"
	"github.com/blinklabs-io/gouroboros/ledger/babbage"
	"github.com/blinklabs-io/gouroboros/ledger/common"
	"github.com/blinklabs-io/gouroboros/ledger/conway"
	"github.com/blinklabs-io/gouroboros/ledger/dijkstra"
	"github.com/blinklabs-io/gouroboros/ledger/mary"
	"github.com/blinklabs-io/gouroboros/ledger/shelley"
)

var Registry = map[string]func(){
	"Coin":       Coin,
	"Assets":     Assets,
	"InRuleList": InRuleList,
}

type rule = func(common.Transaction, uint64, common.LedgerState, common.ProtocolParameters) error

// stubTx provides exactly the Transaction methods the balance rules read.
type stubTx struct {
	common.Transaction
	inputs      []common.TransactionInput
	outputs     []common.TransactionOutput
	fee         *big.Int
	withdrawals map[*common.Address]*big.Int
	certs       []common.Certificate
	mint        *common.MultiAsset[common.MultiAssetTypeMint]
	proposals   []common.ProposalProcedure
	donation    *big.Int
}

func (t stubTx) Inputs() []common.TransactionInput                        { return t.inputs }
func (t stubTx) Outputs() []common.TransactionOutput                      { return t.outputs }
func (t stubTx) Fee() *big.Int                                            { return t.fee }
func (t stubTx) Withdrawals() map[*common.Address]*big.Int                { return t.withdrawals }
func (t stubTx) Certificates() []common.Certificate                       { return t.certs }
func (t stubTx) AssetMint() *common.MultiAsset[common.MultiAssetTypeMint] { return t.mint }
func (t stubTx) ProposalProcedures() []common.ProposalProcedure           { return t.proposals }
func (t stubTx) Donation() *big.Int                                       { return t.donation }
func (t stubTx) Witnesses() common.TransactionWitnessSet                  { return nil }
func (t stubTx) ReferenceInputs() []common.TransactionInput               { return nil }

type proposal struct {
	common.ProposalProcedure
	deposit uint64
}

func (p proposal) Deposit() uint64 { return p.deposit }

// ledger: UTxO table plus pool registration state
type ledger struct {
	stubs.Ledger
	poolRegistered bool
	poolErr        bool
}

var errPool = errors.New("stub ledger: pool lookup failed")

func (l ledger) PoolCurrentState(common.PoolKeyHash) (*common.PoolRegistrationCertificate, *uint64, error) {
	if l.poolErr {
		return nil, nil, errPool
	}
	if l.poolRegistered {
		return &common.PoolRegistrationCertificate{}, nil, nil
	}
	return nil, nil, nil
}

func eraRule(e int) (rule, func(key, pool uint) common.ProtocolParameters, []common.UtxoValidationRuleFunc) {
	switch e {
	case 0:
		return shelley.UtxoValidateValueNotConservedUtxo, func(k, p uint) common.ProtocolParameters {
			return &shelley.ShelleyProtocolParameters{KeyDeposit: k, PoolDeposit: p}
		}, shelley.UtxoValidationRules
	case 1:
		return allegra.UtxoValidateValueNotConservedUtxo, func(k, p uint) common.ProtocolParameters {
			return &allegra.AllegraProtocolParameters{KeyDeposit: k, PoolDeposit: p}
		}, allegra.UtxoValidationRules
	case 2:
		return mary.UtxoValidateValueNotConservedUtxo, func(k, p uint) common.ProtocolParameters {
			return &mary.MaryProtocolParameters{KeyDeposit: k, PoolDeposit: p}
		}, mary.UtxoValidationRules
	case 3:
		return alonzo.UtxoValidateValueNotConservedUtxo, func(k, p uint) common.ProtocolParameters {
			return &alonzo.AlonzoProtocolParameters{KeyDeposit: k, PoolDeposit: p}
		}, alonzo.UtxoValidationRules
	case 4:
		return babbage.UtxoValidateValueNotConservedUtxo, func(k, p uint) common.ProtocolParameters {
			return &babbage.BabbageProtocolParameters{KeyDeposit: k, PoolDeposit: p}
		}, babbage.UtxoValidationRules
	case 5:
		return conway.UtxoValidateValueNotConservedUtxo, func(k, p uint) common.ProtocolParameters {
			return &conway.ConwayProtocolParameters{KeyDeposit: k, PoolDeposit: p}
		}, conway.UtxoValidationRules
	}
	return dijkstra.UtxoValidateValueNotConservedUtxo, func(k, p uint) common.ProtocolParameters {
		pp := &dijkstra.DijkstraProtocolParameters{}
		pp.KeyDeposit, pp.PoolDeposit = k, p
		return pp
	}, dijkstra.UtxoValidationRules
}

// cert builds certificate #i of a kind chosen by a symbolic selector and returns it with its
// reference contribution: (refund to consumed, deposit to produced, invalid amount).
// Kinds 0..4 exist in every era, 5..11 from Conway on.
func cert(name string, conwayKinds bool, keyDep, poolDep *big.Int, poolRegistered bool) (c common.Certificate, refund, deposit *big.Int, invalid bool) {
	k := sym.U8(name + "_kind")
	if conwayKinds {
		sym.Assume(k <= 11)
	} else {
		sym.Assume(k <= 4)
	}
	zero := new(big.Int)
	amt := int64(0)
	if k >= 5 {
		amt = int64(sym.U64(name + "_amount"))
	}
	amtBig := big.NewInt(amt)
	switch {
	case k == 0:
		return &common.StakeDelegationCertificate{}, zero, zero, false
	case k == 1:
		return &common.StakeRegistrationCertificate{}, zero, keyDep, false
	case k == 2:
		return &common.StakeDeregistrationCertificate{}, keyDep, zero, false
	case k == 3:
		d := zero
		if !poolRegistered {
			d = poolDep
		}
		return &common.PoolRegistrationCertificate{}, zero, d, false
	case k == 4:
		return &common.PoolRetirementCertificate{}, zero, zero, false
	case k == 5:
		return &common.RegistrationCertificate{Amount: amt}, zero, amtBig, amt <= 0
	case k == 6:
		return &common.DeregistrationCertificate{Amount: amt}, amtBig, zero, amt <= 0
	case k == 7:
		return &common.RegistrationDrepCertificate{Amount: amt}, zero, amtBig, amt <= 0
	case k == 8:
		return &common.DeregistrationDrepCertificate{Amount: amt}, amtBig, zero, amt <= 0
	case k == 9:
		return &common.StakeRegistrationDelegationCertificate{Amount: amt}, zero, amtBig, amt <= 0
	case k == 10:
		return &common.StakeVoteRegistrationDelegationCertificate{Amount: amt}, zero, amtBig, amt <= 0
	}
	return &common.VoteRegistrationDelegationCertificate{Amount: amt}, zero, amtBig, amt <= 0
}

func addr(i int) *common.Address {
	b := make([]byte, 29)
	b[0], b[1] = 0xe1, byte(i+1)
	a, err := common.NewAddressFromBytes(b)
	if err != nil {
		panic(err)
	}
	return &a
}

// Coin: the rule accepts iff consumed = produced for ada, where consumed = inputs (found in
// the ledger) + withdrawals + deposit refunds and produced = outputs + fee + new deposits
// (+ proposals + donation from Conway on); an invalid certificate amount is an error.
func Coin() {
	e := sym.Param("era")
	nIn, nOut, nCert := sym.Param("inputs"), sym.Param("outputs"), sym.Param("certs")
	r, mkpp, _ := eraRule(e)
	keyDep, poolDep := sym.U64("key_deposit"), sym.U64("pool_deposit")
	kd, pd := new(big.Int).SetUint64(keyDep), new(big.Int).SetUint64(poolDep)
	ls := ledger{poolRegistered: sym.Bool("pool_registered")}
	tx := stubTx{}
	consumed, produced := new(big.Int), new(big.Int)
	for i := 0; i < nIn; i++ {
		tx.inputs = append(tx.inputs, shelley.ShelleyTransactionInput{OutputIndex: uint32(i)})
		amt := sym.BigNonNeg("in" + string(rune('0'+i)))
		missing := sym.Bool("in_missing" + string(rune('0'+i)))
		ls.Outs = append(ls.Outs, stubs.Output{Coin: amt})
		ls.Missing = append(ls.Missing, missing)
		if !missing {
			consumed.Add(consumed, amt)
		}
	}
	for i := 0; i < nOut; i++ {
		amt := sym.BigNonNeg("out" + string(rune('0'+i)))
		tx.outputs = append(tx.outputs, stubs.Output{Coin: amt})
		produced.Add(produced, amt)
	}
	if sym.Bool("fee_nil") {
		tx.fee = nil
	} else {
		tx.fee = sym.BigNonNeg("fee")
		produced.Add(produced, tx.fee)
	}
	if sym.Bool("has_withdrawal") {
		w := sym.BigNonNeg("withdrawal")
		tx.withdrawals = map[*common.Address]*big.Int{addr(0): w}
		consumed.Add(consumed, w)
	}
	invalid := false
	for i := 0; i < nCert; i++ {
		c, refund, deposit, bad := cert("cert"+string(rune('0'+i)), e >= 5, kd, pd, ls.poolRegistered)
		tx.certs = append(tx.certs, c)
		consumed.Add(consumed, refund)
		produced.Add(produced, deposit)
		if bad {
			invalid = true
		}
	}
	if e >= 5 {
		if sym.Bool("has_proposal") {
			d := sym.U64("proposal_deposit")
			tx.proposals = []common.ProposalProcedure{proposal{deposit: d}}
			produced.Add(produced, new(big.Int).SetUint64(d))
		}
		if sym.Bool("has_donation") {
			tx.donation = sym.BigNonNeg("donation")
			produced.Add(produced, tx.donation)
		}
	}
	err := r(tx, 0, ls, mkpp(uint(keyDep), uint(poolDep)))
	sym.ObsBool("accepted", err == nil)
	if invalid {
		sym.Reach("invalid-amount")
		sym.Assert(err != nil, "a certificate with a non-positive deposit amount is rejected")
		return
	}
	sym.Reach("decided")
	sym.Assert((err == nil) == (consumed.Cmp(produced) == 0), "accepted iff consumed = produced (ada)")
}

var policy = common.Blake2b224{7}
var names = [2][]byte{{0xaa}, {0xbb}}

func multi(tag string, q *[2]*big.Int, allowNeg bool) *common.MultiAsset[common.MultiAssetTypeOutput] {
	data := map[cbor.ByteString]*big.Int{}
	any := false
	for n := 0; n < 2; n++ {
		q[n] = new(big.Int)
		if sym.Bool(tag + "_has" + string(rune('0'+n))) {
			var v *big.Int
			if allowNeg {
				v = sym.Big(tag + "_q" + string(rune('0'+n)))
			} else {
				v = sym.BigNonNeg(tag + "_q" + string(rune('0'+n)))
			}
			data[cbor.NewByteString(names[n])] = v
			q[n] = v
			any = true
		}
	}
	if !any {
		return nil
	}
	m := common.NewMultiAsset[common.MultiAssetTypeOutput](map[common.Blake2b224]map[cbor.ByteString]*big.Int{policy: data})
	return &m
}

// Assets: with ada balanced, the rule accepts iff for each asset inputs + mint = outputs.
func Assets() {
	e := sym.Param("era")
	r, mkpp, _ := eraRule(e)
	ls := ledger{}
	tx := stubTx{fee: new(big.Int)}
	var in, out, mint [2]*big.Int
	tx.inputs = []common.TransactionInput{shelley.ShelleyTransactionInput{OutputIndex: 0}}
	ls.Outs = []common.TransactionOutput{stubs.Output{Coin: big.NewInt(5), Multi: multi("in", &in, false)}}
	tx.outputs = []common.TransactionOutput{stubs.Output{Coin: big.NewInt(5), Multi: multi("out", &out, false)}}
	tx.mint = multi("mint", &mint, true)
	err := r(tx, 0, ls, mkpp(0, 0))
	sym.ObsBool("accepted", err == nil)
	balanced := true
	for n := 0; n < 2; n++ {
		if new(big.Int).Add(in[n], mint[n]).Cmp(out[n]) != 0 {
			balanced = false
		}
	}
	sym.Reach("decided")
	sym.Assert((err == nil) == balanced, "accepted iff inputs + mint = outputs for every asset")
}

// InRuleList: the balance rule is a member of the era's rule list.
func InRuleList() {
	r, _, list := eraRule(sym.Param("era"))
	sym.Reach("decided")
	sym.Assert(stubs.InList(list, r), "value-conservation rule is in the era's rule list")
}
