// Package c28: spending requires a valid signature from the owner.
package c28

import (
	"crypto/ed25519"
	"math/big"

	"verifharness/stubs"
	"verifharness/sym"

	"github.com/blinklabs-io/gouroboros/ledger/common"
	"github.com/blinklabs-io/gouroboros/ledger/shelley"
)

var Registry = map[string]func(){
	"Signatures": Signatures,
	"Collateral": Collateral,
	"Required":   Required,
}

const maxKeys = 3

var nKeys = 2 // size of the key universe (harness parameter "keys")

func priv(i int) ed25519.PrivateKey {
	seed := make([]byte, 32)
	seed[0] = byte(i + 1)
	return ed25519.NewKeyFromSeed(seed)
}

// pub: key i of the universe. Natively a real ed25519 key, under the executor a constant.
func pub(i int) []byte {
	if sym.Symbolic() {
		k := make([]byte, 32)
		k[0] = byte(0x10 + i)
		return k
	}
	return priv(i).Public().(ed25519.PublicKey)
}

type witnessSet struct {
	common.TransactionWitnessSet
	vkey []common.VkeyWitness
	boot []common.BootstrapWitness
}

func (w witnessSet) Vkey() []common.VkeyWitness           { return w.vkey }
func (w witnessSet) Bootstrap() []common.BootstrapWitness { return w.boot }

type stubTx struct {
	common.Transaction
	hash       common.Blake2b256
	wits       witnessSet
	inputs     []common.TransactionInput
	collateral []common.TransactionInput
	required   []common.Blake2b224
}

func (t stubTx) Hash() common.Blake2b256                   { return t.hash }
func (t stubTx) Witnesses() common.TransactionWitnessSet   { return t.wits }
func (t stubTx) Inputs() []common.TransactionInput         { return t.inputs }
func (t stubTx) Collateral() []common.TransactionInput     { return t.collateral }
func (t stubTx) RequiredSigners() []common.Blake2b224      { return t.required }
func (t stubTx) Withdrawals() map[*common.Address]*big.Int { return nil }

// pick: a symbolic choice of a key of the universe (the executor forks)
func pick(name string) int {
	k := sym.U8(name)
	sym.Assume(int(k) < nKeys)
	switch {
	case k == 0:
		return 0
	case k == 1:
		return 1
	}
	return 2
}

// signature over msg by key i: genuine or not is symbolic; natively a real signature (or a
// corrupted one), under the executor the verification predicate is constrained to the flag.
func signature(name string, i int, msg []byte) ([]byte, bool) {
	genuine := sym.Bool(name + "_genuine")
	sig := sym.Bytes(name, 64)
	if sym.Symbolic() {
		sym.Assume(ed25519.Verify(ed25519.PublicKey(pub(i)), msg, sig) == genuine)
		return sig, genuine
	}
	var out []byte
	if genuine {
		out = ed25519.Sign(priv(i), msg)
	} else {
		out = ed25519.Sign(priv(i), msg)
		out[0] ^= 1
		// the model may make a forged signature byte-identical to one supplied earlier under
		// another key: natively that is the earlier witness's real signature, reused
		for _, e := range earlierSigs {
			if e.key != i && string(e.model) == string(sig) {
				out = e.native
			}
		}
	}
	earlierSigs = append(earlierSigs, sigRecord{i, append([]byte{}, sig...), out})
	return out, genuine
}

type sigRecord struct {
	key    int
	model  []byte
	native []byte
}

var earlierSigs []sigRecord

func keyAddr(i int) common.Address { return keyAddrT(i, 6) }

// tail: the staking part that follows the payment credential for address type t
func tail(t byte) []byte {
	switch t >> 1 {
	case 0, 1: // base addresses: a 28-byte staking credential
		return make([]byte, 28)
	case 2: // pointer addresses: three varints
		return []byte{0x81, 0x02, 0x03, 0x04}
	}
	return nil // enterprise
}

// keyAddrT: the address of Shelley type t (0, 2, 4 or 6: payment part is a key hash) paid to key i
func keyAddrT(i int, t byte) common.Address {
	h := common.Blake2b224Hash(pub(i))
	b := append(append([]byte{t<<4 | 1}, h[:]...), tail(t)...)
	a, err := common.NewAddressFromBytes(b)
	if err != nil {
		panic(err)
	}
	return a
}

// keyType: a symbolic choice among the address types whose payment part is a key hash
func keyType(name string) byte {
	t := sym.U8(name)
	sym.Assume(t <= 3)
	switch {
	case t == 0:
		return 0
	case t == 1:
		return 2
	case t == 2:
		return 4
	}
	return 6
}

func scriptAddr() common.Address { return scriptAddrT(7) }

// scriptAddrT: an address of Shelley type t (1, 3, 5 or 7: payment part is a script hash)
func scriptAddrT(t byte) common.Address {
	b := append(append([]byte{t<<4 | 1}, make([]byte, 28)...), tail(t)...)
	a, err := common.NewAddressFromBytes(b)
	if err != nil {
		panic(err)
	}
	return a
}

// Signatures: if UtxoValidateSignatures, ValidateCollateralVKeyWitnesses and
// ValidateRequiredVKeyWitnesses all accept, then every supplied witness signature verifies
// against the transaction id, every key-locked input and collateral input is owned by a
// supplied key (Byron inputs: by a bootstrap witness deriving the address root), and every
// required signer has a witness.
func Signatures() {
	earlierSigs = nil
	nKeys = sym.Param("keys")
	nWit, nIn := sym.Param("witnesses"), sym.Param("inputs")
	tx := stubTx{hash: common.Blake2b256(sym.Bytes("txid", 32))}
	supplied := [maxKeys]bool{}
	allGenuine := true
	for i := 0; i < nWit; i++ {
		name := "wit" + string(rune('0'+i))
		k := pick(name + "_key")
		sig, ok := signature(name+"_sig", k, tx.hash[:])
		tx.wits.vkey = append(tx.wits.vkey, common.VkeyWitness{Vkey: pub(k), Signature: sig})
		supplied[k] = true
		if !ok {
			allGenuine = false
		}
	}
	// optional bootstrap witness (Byron)
	bootKey := -1
	chain, attrs := make([]byte, 32), []byte{0xa0}
	if sym.Bool("has_bootstrap") {
		bootKey = pick("boot_key")
		sig, ok := signature("boot_sig", bootKey, tx.hash[:])
		tx.wits.boot = []common.BootstrapWitness{{PublicKey: pub(bootKey), Signature: sig, ChainCode: chain, Attributes: attrs}}
		if !ok {
			allGenuine = false
		}
	}
	ls := stubs.Ledger{}
	ownersOK := true
	addInput := func(name string, idx int) common.TransactionInput {
		kind := sym.U8(name + "_kind") // 0 key-locked, 1 script-locked, 2 Byron
		sym.Assume(kind <= 2)
		var a common.Address
		switch {
		case kind == 0:
			k := pick(name + "_owner")
			a = keyAddrT(k, keyType(name+"_addrtype"))
			if !supplied[k] {
				ownersOK = false
			}
		case kind == 1:
			a = scriptAddrT(keyType(name+"_addrtype") + 1)
		default:
			k := pick(name + "_owner")
			root, err := common.VerifByronRoot(pub(k), chain, attrs)
			sym.Assume(err == nil)
			a = common.VerifByronAddress(root)
			if bootKey != k {
				ownersOK = false
			}
		}
		ls.Outs = append(ls.Outs, stubs.Output{Addr: a})
		return shelley.ShelleyTransactionInput{OutputIndex: uint32(idx)}
	}
	for i := 0; i < nIn; i++ {
		tx.inputs = append(tx.inputs, addInput("in"+string(rune('0'+i)), len(ls.Outs)))
	}
	e1 := common.UtxoValidateSignatures(tx, 0, ls, nil)
	sym.ObsBool("sig_ok", e1 == nil)
	sym.Reach("decided")
	if e1 == nil {
		sym.Reach("accepted")
		sym.Assert(allGenuine, "accepted => every supplied witness signature verifies against the transaction id")
		sym.Assert(ownersOK, "accepted => every key-locked input is owned by a supplied key (Byron: by a bootstrap witness deriving the root)")
	} else {
		sym.Assert(!(allGenuine && ownersOK), "a properly witnessed transaction is accepted by the signature rule")
	}
}

// witnesses builds n vkey witnesses with symbolic keys (signatures are not looked at by the
// presence rules) and reports which keys are supplied.
func witnesses(n int) (witnessSet, [maxKeys]bool) {
	var w witnessSet
	var supplied [maxKeys]bool
	for i := 0; i < n; i++ {
		k := pick("wit" + string(rune('0'+i)) + "_key")
		w.vkey = append(w.vkey, common.VkeyWitness{Vkey: pub(k), Signature: make([]byte, 64)})
		supplied[k] = true
	}
	return w, supplied
}

// Collateral: the collateral rule accepts iff every collateral input is key-locked and owned
// by a supplied key.
func Collateral() {
	nKeys = sym.Param("keys")
	tx := stubTx{}
	var supplied [maxKeys]bool
	tx.wits, supplied = witnesses(sym.Param("witnesses"))
	ls := stubs.Ledger{}
	ok := true
	for i := 0; i < sym.Param("inputs"); i++ {
		name := "coll" + string(rune('0'+i))
		var a common.Address
		if sym.Bool(name + "_script") {
			a = scriptAddrT(keyType(name+"_addrtype") + 1)
			ok = false
		} else {
			k := pick(name + "_owner")
			a = keyAddrT(k, keyType(name+"_addrtype"))
			if !supplied[k] {
				ok = false
			}
		}
		tx.collateral = append(tx.collateral, shelley.ShelleyTransactionInput{OutputIndex: uint32(i)})
		ls.Outs = append(ls.Outs, stubs.Output{Addr: a})
	}
	err := common.ValidateCollateralVKeyWitnesses(tx, ls)
	sym.Reach("decided")
	sym.Assert((err == nil) == ok, "collateral rule accepts iff every collateral input is key-locked and owned by a supplied key")
}

// Required: the required-signer rule accepts iff every required signer has a witness.
func Required() {
	nKeys = sym.Param("keys")
	tx := stubTx{}
	var supplied [maxKeys]bool
	tx.wits, supplied = witnesses(sym.Param("witnesses"))
	ok := true
	for i := 0; i < sym.Param("signers"); i++ {
		k := pick("signer" + string(rune('0'+i)))
		tx.required = append(tx.required, common.Blake2b224Hash(pub(k)))
		if !supplied[k] {
			ok = false
		}
	}
	err := common.ValidateRequiredVKeyWitnesses(tx)
	sym.Reach("decided")
	sym.Assert((err == nil) == ok, "required-signer rule accepts iff every required signer has a witness")
}
