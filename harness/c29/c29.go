// Package c29: native scripts evaluate as the ledger defines them.
package c29

import (
	"verifharness/sym"

	"github.com/blinklabs-io/gouroboros/ledger/common"
)

var Registry = map[string]func(){
	"Eval": Eval,
	"Hash": Hash,
}

// three-key universe
func key(i int) common.Blake2b224 {
	var h common.Blake2b224
	h[0] = byte(i + 1)
	return h
}

type ctx struct {
	start, ttl uint64 // 0 = absent (Transaction interface convention)
	wit        [3]bool
	// edge detectors for the recorded findings
	zeroBefore, maxHereafter bool
}

// node builds a script of at most the given depth whose shape is chosen by symbolic
// selectors (the executor forks on them), and returns it with its reference value under
// the ledger's timelock semantics.
func node(name string, depth, width int, c *ctx) (common.NativeScript, bool) {
	k := sym.U8(name + "_kind")
	if depth == 0 {
		sym.Assume(k == 0 || k == 4 || k == 5)
	} else {
		sym.Assume(k <= 5)
	}
	switch {
	case k == 0:
		i := sym.U8(name + "_key")
		sym.Assume(i < 3)
		idx := 0
		if i == 1 {
			idx = 1
		} else if i == 2 {
			idx = 2
		}
		h := key(idx)
		return common.VerifNativeScript(&common.NativeScriptPubkey{Type: 0, Hash: h[:]}, nil), c.wit[idx]
	case k == 4:
		s := sym.U64(name + "_slot")
		if s == 0 {
			c.zeroBefore = true
		}
		return common.VerifNativeScript(&common.NativeScriptInvalidBefore{Type: 4, Slot: s}, nil), c.start != 0 && s <= c.start
	case k == 5:
		s := sym.U64(name + "_slot")
		if s == ^uint64(0) {
			c.maxHereafter = true
		}
		return common.VerifNativeScript(&common.NativeScriptInvalidHereafter{Type: 5, Slot: s}, nil), c.ttl != 0 && c.ttl <= s
	}
	// composite: 0..width children
	w := sym.U8(name + "_width")
	sym.Assume(int(w) <= width)
	var subs []common.NativeScript
	var vals []bool
	for i := 0; i < width; i++ {
		if uint8(i) < w {
			s, v := node(name+string(rune('a'+i)), depth-1, width, c)
			subs = append(subs, s)
			vals = append(vals, v)
		}
	}
	cnt := 0
	for _, v := range vals {
		if v {
			cnt++
		}
	}
	switch {
	case k == 1:
		return common.VerifNativeScript(&common.NativeScriptAll{Type: 1, Scripts: subs}, nil), cnt == len(vals)
	case k == 2:
		return common.VerifNativeScript(&common.NativeScriptAny{Type: 2, Scripts: subs}, nil), cnt > 0
	}
	n := sym.U64(name + "_n")
	return common.VerifNativeScript(&common.NativeScriptNofK{Type: 3, N: uint(n), Scripts: subs}, nil), uint64(cnt) >= n
}

// Eval: Evaluate, called the way UtxoValidateNativeScripts calls it (absent TTL -> MaxUint64),
// equals the ledger's timelock semantics.
func Eval() {
	c := &ctx{start: sym.U64("validity_start"), ttl: sym.U64("ttl")}
	keyHashes := map[common.Blake2b224]bool{}
	for i := 0; i < 3; i++ {
		c.wit[i] = sym.Bool("witness" + string(rune('0'+i)))
		if c.wit[i] {
			keyHashes[key(i)] = true
		}
	}
	s, want := node("s", sym.Param("depth"), sym.Param("width"), c)
	end := c.ttl
	if end == 0 {
		end = ^uint64(0)
	}
	got := s.Evaluate(sym.U64("slot"), c.start, end, keyHashes)
	sym.ObsBool("eval", got)
	sym.Region("invalid-before-0-without-start", c.start == 0 && c.zeroBefore)
	sym.Region("invalid-hereafter-max-without-ttl", c.ttl == 0 && c.maxHereafter)
	sym.Reach("decided")
	sym.Assert(got == want, "Evaluate equals the ledger's timelock semantics")
}

// Hash: the script hash is Blake2b-224 of a zero byte followed by the stored encoding.
func Hash() {
	stored := sym.Bytes("cbor", sym.Param("n"))
	s := common.VerifNativeScript(&common.NativeScriptInvalidBefore{Type: 4}, stored)
	got := s.Hash()
	buf := append([]byte{0}, stored...)
	want := common.Blake2b224Hash(buf)
	sym.Reach("decided")
	sym.Assert(common.Blake2b224(got) == want, "script hash = Blake2b-224(0x00 || original encoding)")
}
