// Package c30: the minimum fee and size limits use the transaction's real size.
package c30

import (
	"math/big"

	"verifharness/ghost"
	"verifharness/stubs"
	"verifharness/sym"

	"github.com/blinklabs-io/gouroboros/ledger/allegra"
	"github.com/blinklabs-io/gouroboros/ledger/alonzo"
	"github.com/blinklabs-io/gouroboros/ledger/babbage"
	"github.com/blinklabs-io/gouroboros/ledger/common"
	"github.com/blinklabs-io/gouroboros/ledger/conway"
	"github.com/blinklabs-io/gouroboros/ledger/dijkstra"
	"github.com/blinklabs-io/gouroboros/ledger/mary"
	"github.com/blinklabs-io/gouroboros/ledger/shelley"
)

var Registry = map[string]func(){
	"MinFee":      MinFee,
	"TxSize":      TxSize,
	"FeeRule":     FeeRule,
	"MaxSizeRule": MaxSizeRule,
	"InRuleList":  InRuleList,
}

// InRuleList: the fee and max-size rules are members of the era's rule list.
func InRuleList() {
	lists := [][]common.UtxoValidationRuleFunc{shelley.UtxoValidationRules, allegra.UtxoValidationRules, mary.UtxoValidationRules,
		alonzo.UtxoValidationRules, babbage.UtxoValidationRules, conway.UtxoValidationRules, dijkstra.UtxoValidationRules}
	era := sym.Param("era")
	r := eras()[era]
	sym.Reach("decided")
	sym.Assert(stubs.InList(lists[era], r.fee), "fee rule is in the era's rule list")
	sym.Assert(stubs.InList(lists[era], r.maxSize), "max-size rule is in the era's rule list")
}

// MinFee: CalculateMinFee(size,a,b) == a*size+b for all inputs, overflow reported, never wrapped.
func MinFee() {
	size := sym.Int("size")
	a := sym.U64("a")
	b := sym.U64("b")
	fee, err := common.CalculateMinFee(size, uint(a), uint(b))
	sym.ObsBool("err", err != nil)
	if size < 0 {
		sym.Reach("negative")
		sym.Assert(err != nil, "negative size rejected")
		return
	}
	exact := new(big.Int).Mul(new(big.Int).SetUint64(a), new(big.Int).SetUint64(uint64(size)))
	exact.Add(exact, new(big.Int).SetUint64(b))
	if exact.IsUint64() {
		sym.Reach("fits")
		sym.Assert(err == nil, "no spurious overflow")
		sym.ObsU64("fee", fee)
		sym.Assert(new(big.Int).SetUint64(fee).Cmp(exact) == 0, "fee == a*size+b")
	} else {
		sym.Reach("overflow")
		sym.Assert(err != nil, "overflow is reported as an error, never wrapped")
	}
}

// feeTx is a transaction of which only the stored encoding, the era type and the fee exist:
// exactly what the fee and size rules read (any other method is a nil-interface call and
// would be reported).
type feeTx struct {
	common.Transaction
	data []byte
	typ  int
	fee  *big.Int
}

func (t feeTx) Cbor() []byte  { return t.data }
func (t feeTx) Type() int     { return t.typ }
func (t feeTx) Fee() *big.Int { return t.fee }

// symTx builds a transaction whose stored encoding is n symbolic bytes: an array head in
// the given form (ghost.Form*) announcing `items` elements, then the elements (well-formed
// leaves of symbolic length), then the break for the indefinite form. Every byte is
// symbolic; the head form, item count and leaf forms are case splits.
func symTx(form, items int) (feeTx, int) {
	data := sym.Bytes("tx", 9+3*items+1)
	off := ghost.PutHead(data, 0, 4, form, items)
	for i := 0; i < items; i++ {
		off += ghost.Leaf(data, off, "item"+string(rune('0'+i)))
	}
	if form == ghost.FormIndef {
		sym.Assume(data[off] == 0xff)
		off++
	}
	typ := sym.Int("type")
	sym.Assume(typ >= 0 && typ <= 8)
	return feeTx{data: data[:off], typ: typ}, off
}

func refSize(n int, typ int, items int) int {
	if typ >= 4 && items == 4 {
		return n - 1
	}
	return n
}

// TxSize: size = stored length, minus one for the four-element envelope from Alonzo on,
// whatever head form the envelope array uses.
func TxSize() {
	items := sym.Param("items")
	tx, n := symTx(sym.Param("form"), items)
	size, err := common.TxSizeForFee(tx)
	sym.Assert(err == nil, "TxSizeForFee succeeds on a stored encoding")
	sym.ObsInt("size", size)
	sym.Reach("sized")
	sym.Assert(size == refSize(n, tx.typ, items), "size == len(original) - [type>=Alonzo and 4-element envelope]")
}

type eraRules struct {
	fee, maxSize func(common.Transaction, uint64, common.LedgerState, common.ProtocolParameters) error
	pp           func(a, b, max uint) common.ProtocolParameters
}

func eras() []eraRules {
	return []eraRules{
		{shelley.UtxoValidateFeeTooSmallUtxo, shelley.UtxoValidateMaxTxSizeUtxo, func(a, b, m uint) common.ProtocolParameters {
			return &shelley.ShelleyProtocolParameters{MinFeeA: a, MinFeeB: b, MaxTxSize: m}
		}},
		{allegra.UtxoValidateFeeTooSmallUtxo, allegra.UtxoValidateMaxTxSizeUtxo, func(a, b, m uint) common.ProtocolParameters {
			return &allegra.AllegraProtocolParameters{MinFeeA: a, MinFeeB: b, MaxTxSize: m}
		}},
		{mary.UtxoValidateFeeTooSmallUtxo, mary.UtxoValidateMaxTxSizeUtxo, func(a, b, m uint) common.ProtocolParameters {
			return &mary.MaryProtocolParameters{MinFeeA: a, MinFeeB: b, MaxTxSize: m}
		}},
		{alonzo.UtxoValidateFeeTooSmallUtxo, alonzo.UtxoValidateMaxTxSizeUtxo, func(a, b, m uint) common.ProtocolParameters {
			return &alonzo.AlonzoProtocolParameters{MinFeeA: a, MinFeeB: b, MaxTxSize: m}
		}},
		{babbage.UtxoValidateFeeTooSmallUtxo, babbage.UtxoValidateMaxTxSizeUtxo, func(a, b, m uint) common.ProtocolParameters {
			return &babbage.BabbageProtocolParameters{MinFeeA: a, MinFeeB: b, MaxTxSize: m}
		}},
		{conway.UtxoValidateFeeTooSmallUtxo, conway.UtxoValidateMaxTxSizeUtxo, func(a, b, m uint) common.ProtocolParameters {
			return &conway.ConwayProtocolParameters{MinFeeA: a, MinFeeB: b, MaxTxSize: m}
		}},
		{dijkstra.UtxoValidateFeeTooSmallUtxo, dijkstra.UtxoValidateMaxTxSizeUtxo, func(a, b, m uint) common.ProtocolParameters {
			pp := &dijkstra.DijkstraProtocolParameters{}
			pp.MinFeeA, pp.MinFeeB, pp.MaxTxSize = a, b, m
			return pp
		}},
	}
}

// concBytes: the rule harnesses use a concrete envelope (so that their integer theory can be
// "int" for the big.Int arithmetic of the rules): head in the given form announcing `items`
// one-byte elements.
func concBytes(form, items int) []byte {
	n := ghost.HeadLen(form) + items
	if form == ghost.FormIndef {
		n++
	}
	data := make([]byte, n)
	switch form {
	case ghost.FormImm:
		data[0] = 0x80 | byte(items)
	case ghost.FormIndef:
		data[0] = 0x9f
		data[n-1] = 0xff
	default:
		data[0] = 0x80 | byte(23+form)
		data[ghost.HeadLen(form)-1] = byte(items)
	}
	return data
}

// tieItems states the item extents of concBytes' layout on the transaction's own copy of
// the bytes (SetCbor copies its argument).
func tieItems(stored []byte, form, items int) {
	for i := 0; i < items; i++ {
		ghost.Tie(stored, ghost.HeadLen(form)+i, 1)
	}
}

// realTx builds the era's real transaction struct holding the stored encoding and the fee:
// the rules then run through the real Cbor()/Fee()/Type()/MarshalCBOR methods.
func realTx(era int, data []byte, fee uint64) common.Transaction {
	switch era {
	case 0:
		t := &shelley.ShelleyTransaction{}
		t.SetCbor(data)
		t.Body.TxFee = fee
		return t
	case 1:
		t := &allegra.AllegraTransaction{}
		t.SetCbor(data)
		t.Body.TxFee = fee
		return t
	case 2:
		t := &mary.MaryTransaction{}
		t.SetCbor(data)
		t.Body.TxFee = fee
		return t
	case 3:
		t := &alonzo.AlonzoTransaction{}
		t.SetCbor(data)
		t.Body.TxFee = fee
		return t
	case 4:
		t := &babbage.BabbageTransaction{}
		t.SetCbor(data)
		t.Body.TxFee = fee
		return t
	case 5:
		t := &conway.ConwayTransaction{}
		t.SetCbor(data)
		t.Body.TxFee = fee
		return t
	}
	t := &dijkstra.DijkstraTransaction{}
	t.SetCbor(data)
	t.Body.TxFee = fee
	return t
}

// FeeRule: per era, the rule accepts iff fee >= a*size+b with size as above; overflow => error.
func FeeRule() {
	era := sym.Param("era")
	items := sym.Param("items")
	data := concBytes(sym.Param("form"), items)
	n := len(data)
	a, b, fee := sym.U64("a"), sym.U64("b"), sym.U64("fee")
	tx := realTx(era, data, fee)
	tieItems(tx.Cbor(), sym.Param("form"), items)
	r := eras()[era]
	err := r.fee(tx, 0, nil, r.pp(uint(a), uint(b), 0))
	sym.ObsBool("accepted", err == nil)
	size := refSize(n, tx.Type(), items)
	min := new(big.Int).Mul(new(big.Int).SetUint64(a), big.NewInt(int64(size)))
	min.Add(min, new(big.Int).SetUint64(b))
	if !min.IsUint64() {
		sym.Reach("overflow")
		sym.Assert(err != nil, "fee rule: overflow of a*size+b is an error")
		return
	}
	sym.Reach("decided")
	sym.Assert((err == nil) == (new(big.Int).SetUint64(fee).Cmp(min) >= 0), "fee rule accepts iff fee >= a*size+b")
}

// MaxSizeRule: per era, accepts iff the stored length <= max tx size.
func MaxSizeRule() {
	era := sym.Param("era")
	data := concBytes(sym.Param("form"), sym.Param("items"))
	tx := realTx(era, data, 0)
	tieItems(tx.Cbor(), sym.Param("form"), sym.Param("items"))
	max := sym.U64("max")
	r := eras()[era]
	err := r.maxSize(tx, 0, nil, r.pp(0, 0, uint(max)))
	sym.ObsBool("accepted", err == nil)
	sym.Reach("decided")
	sym.Assert((err == nil) == (uint64(len(data)) <= max), "max-size rule accepts iff len(original) <= max")
}
