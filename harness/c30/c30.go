// Package c30: the minimum fee and size limits use the transaction's real size.
package c30

import (
	"math/big"

	"verifharness/sym"

	"github.com/blinklabs-io/gouroboros/cbor"
	"github.com/blinklabs-io/gouroboros/ledger/allegra"
	"github.com/blinklabs-io/gouroboros/ledger/alonzo"
	"github.com/blinklabs-io/gouroboros/ledger/babbage"
	"github.com/blinklabs-io/gouroboros/ledger/common"
	"github.com/blinklabs-io/gouroboros/ledger/conway"
	"github.com/blinklabs-io/gouroboros/ledger/dijkstra"
	"github.com/blinklabs-io/gouroboros/ledger/mary"
	"github.com/blinklabs-io/gouroboros/ledger/shelley"
)

var Registry = map[string]func(){
	"MinFee":      MinFee,
	"TxSize":      TxSize,
	"FeeRule":     FeeRule,
	"MaxSizeRule": MaxSizeRule,
}

// MinFee: CalculateMinFee(size,a,b) == a*size+b for all inputs, overflow reported, never wrapped.
func MinFee() {
	size := sym.Int("size")
	a := sym.U64("a")
	b := sym.U64("b")
	fee, err := common.CalculateMinFee(size, uint(a), uint(b))
	sym.ObsBool("err", err != nil)
	if size < 0 {
		sym.Reach("negative")
		sym.Assert(err != nil, "negative size rejected")
		return
	}
	exact := new(big.Int).Mul(new(big.Int).SetUint64(a), new(big.Int).SetUint64(uint64(size)))
	exact.Add(exact, new(big.Int).SetUint64(b))
	if exact.IsUint64() {
		sym.Reach("fits")
		sym.Assert(err == nil, "no spurious overflow")
		sym.ObsU64("fee", fee)
		sym.Assert(new(big.Int).SetUint64(fee).Cmp(exact) == 0, "fee == a*size+b")
	} else {
		sym.Reach("overflow")
		sym.Assert(err != nil, "overflow is reported as an error, never wrapped")
	}
}

// feeTx is a transaction of which only the stored encoding, the era type and the fee exist:
// exactly what the fee and size rules read (any other method is a nil-interface call and
// would be reported).
type feeTx struct {
	common.Transaction
	data []byte
	typ  int
	fee  *big.Int
}

func (t feeTx) Cbor() []byte  { return t.data }
func (t feeTx) Type() int     { return t.typ }
func (t feeTx) Fee() *big.Int { return t.fee }

// symTx builds a transaction whose stored encoding is n symbolic bytes that start with the
// head of an array (any of the six head forms). items is the ghost number of elements of
// that array: for definite heads it is tied to the head's count, for the indefinite form it
// is free (the number of items before the break).
func symTx(n int) (tx feeTx, items uint64) {
	data := sym.Bytes("tx", n)
	major, cnt, _, indef, ok := cbor.VerifHead(data, 0)
	sym.Assume(ok && major == 4)
	items = sym.U64("items")
	sym.Assume(items <= 6)
	if !indef {
		sym.Assume(cnt == items)
	}
	sym.Region("envelope-indefinite", indef)
	typ := sym.Int("type")
	sym.Assume(typ >= 0 && typ <= 8)
	return feeTx{data: data, typ: typ}, items
}

func refSize(n int, typ int, items uint64) int {
	if typ >= 4 && items == 4 {
		return n - 1
	}
	return n
}

// TxSize: size = stored length, minus one for the four-element envelope from Alonzo on,
// whatever head form the envelope array uses.
func TxSize() {
	n := sym.Param("n")
	tx, items := symTx(n)
	size, err := common.TxSizeForFee(tx)
	sym.Assert(err == nil, "TxSizeForFee succeeds on a stored encoding")
	sym.ObsInt("size", size)
	sym.Reach("sized")
	sym.Assert(size == refSize(n, tx.typ, items), "size == len(original) - [type>=Alonzo and 4-element envelope]")
}

type eraRules struct {
	fee, maxSize func(common.Transaction, uint64, common.LedgerState, common.ProtocolParameters) error
	pp           func(a, b, max uint) common.ProtocolParameters
}

func eras() []eraRules {
	return []eraRules{
		{shelley.UtxoValidateFeeTooSmallUtxo, shelley.UtxoValidateMaxTxSizeUtxo, func(a, b, m uint) common.ProtocolParameters {
			return &shelley.ShelleyProtocolParameters{MinFeeA: a, MinFeeB: b, MaxTxSize: m}
		}},
		{allegra.UtxoValidateFeeTooSmallUtxo, allegra.UtxoValidateMaxTxSizeUtxo, func(a, b, m uint) common.ProtocolParameters {
			return &allegra.AllegraProtocolParameters{MinFeeA: a, MinFeeB: b, MaxTxSize: m}
		}},
		{mary.UtxoValidateFeeTooSmallUtxo, mary.UtxoValidateMaxTxSizeUtxo, func(a, b, m uint) common.ProtocolParameters {
			return &mary.MaryProtocolParameters{MinFeeA: a, MinFeeB: b, MaxTxSize: m}
		}},
		{alonzo.UtxoValidateFeeTooSmallUtxo, alonzo.UtxoValidateMaxTxSizeUtxo, func(a, b, m uint) common.ProtocolParameters {
			return &alonzo.AlonzoProtocolParameters{MinFeeA: a, MinFeeB: b, MaxTxSize: m}
		}},
		{babbage.UtxoValidateFeeTooSmallUtxo, babbage.UtxoValidateMaxTxSizeUtxo, func(a, b, m uint) common.ProtocolParameters {
			return &babbage.BabbageProtocolParameters{MinFeeA: a, MinFeeB: b, MaxTxSize: m}
		}},
		{conway.UtxoValidateFeeTooSmallUtxo, conway.UtxoValidateMaxTxSizeUtxo, func(a, b, m uint) common.ProtocolParameters {
			return &conway.ConwayProtocolParameters{MinFeeA: a, MinFeeB: b, MaxTxSize: m}
		}},
		{dijkstra.UtxoValidateFeeTooSmallUtxo, dijkstra.UtxoValidateMaxTxSizeUtxo, func(a, b, m uint) common.ProtocolParameters {
			pp := &dijkstra.DijkstraProtocolParameters{}
			pp.MinFeeA, pp.MinFeeB, pp.MaxTxSize = a, b, m
			return pp
		}},
	}
}

// envelope heads used by the rule harnesses (concrete bytes, so that the integer theory can
// be "int" for the big.Int arithmetic of the rules): head bytes, ghost item count.
var heads = []struct {
	b     []byte
	items uint64
}{
	{[]byte{0x84}, 4},
	{[]byte{0x83}, 3},
	{[]byte{0x85}, 5},
	{[]byte{0x98, 0x04}, 4},
	{[]byte{0x99, 0x00, 0x04}, 4},
	{[]byte{0x9a, 0x00, 0x00, 0x00, 0x04}, 4},
	{[]byte{0x9b, 0, 0, 0, 0, 0, 0, 0, 0x04}, 4},
	{[]byte{0x9f}, 4},
	{[]byte{0x9f}, 3},
}

func concTx(head, extra int) (feeTx, uint64, int) {
	h := heads[head]
	data := append(append([]byte{}, h.b...), make([]byte, extra)...)
	sym.Region("envelope-indefinite", h.b[0] == 0x9f)
	typ := sym.Int("type")
	sym.Assume(typ >= 0 && typ <= 8)
	return feeTx{data: data, typ: typ}, h.items, len(data)
}

// FeeRule: per era, the rule accepts iff fee >= a*size+b with size as above; overflow => error.
func FeeRule() {
	era := sym.Param("era")
	tx, items, n := concTx(sym.Param("head"), 7)
	a, b := sym.U64("a"), sym.U64("b")
	if sym.Bool("fee_nil") {
		tx.fee = nil
	} else {
		tx.fee = sym.Big("fee")
	}
	r := eras()[era]
	err := r.fee(tx, 0, nil, r.pp(uint(a), uint(b), 0))
	sym.ObsBool("accepted", err == nil)
	fee := tx.fee
	if fee == nil {
		fee = new(big.Int)
	}
	size := refSize(n, tx.typ, items)
	min := new(big.Int).Mul(new(big.Int).SetUint64(a), big.NewInt(int64(size)))
	min.Add(min, new(big.Int).SetUint64(b))
	if !min.IsUint64() {
		sym.Reach("overflow")
		sym.Assert(err != nil, "fee rule: overflow of a*size+b is an error")
		return
	}
	sym.Reach("decided")
	sym.Assert((err == nil) == (fee.Cmp(min) >= 0), "fee rule accepts iff fee >= a*size+b")
}

// MaxSizeRule: per era, accepts iff the stored length <= max tx size.
func MaxSizeRule() {
	era := sym.Param("era")
	tx, _, n := concTx(sym.Param("head"), sym.Param("extra"))
	max := sym.U64("max")
	r := eras()[era]
	err := r.maxSize(tx, 0, nil, r.pp(0, 0, uint(max)))
	sym.ObsBool("accepted", err == nil)
	sym.Reach("decided")
	sym.Assert((err == nil) == (uint64(n) <= max), "max-size rule accepts iff len(original) <= max")
}
