// Package c31: the script data hash binds redeemers, datums and cost models.
package c31

import (
	"bytes"

	"verifharness/sym"

	"github.com/blinklabs-io/gouroboros/cbor"
	"github.com/blinklabs-io/gouroboros/ledger/alonzo"
	"github.com/blinklabs-io/gouroboros/ledger/common"
	"github.com/blinklabs-io/gouroboros/ledger/conway"
)

// RedeemerWire: what the data-hash rule calls "the original redeemer bytes" is what the
// Conway redeemer decoder stored: for the map form and for the legacy array form (empty
// containers here, definite or indefinite), a decoded redeemer set hands back exactly its wire
// bytes.
func RedeemerWire() {
	shape := sym.U8("shape") // 0 empty map, 1 empty array, 2 empty indefinite array, 3 empty indefinite map
	sym.Assume(shape <= 3)
	var data []byte
	switch {
	case shape == 0:
		data = []byte{0xa0}
	case shape == 1:
		data = []byte{0x80}
	case shape == 2:
		data = []byte{0x9f, 0xff}
	default:
		data = []byte{0xbf, 0xff}
	}
	if sym.Symbolic() {
		// what the library decodes these bytes to
		if shape == 0 || shape == 3 {
			m := map[common.RedeemerKey]common.RedeemerValue{}
			cbor.VerifDepositFor(data, &m)
		} else {
			cbor.VerifDepositFor(data, &alonzo.AlonzoRedeemers{})
		}
	}
	var r conway.ConwayRedeemers
	err := r.UnmarshalCBOR(data)
	sym.Reach("decoded")
	sym.Assert(err == nil, "an empty redeemer set decodes in either form")
	sym.Assert(bytes.Equal(r.Cbor(), data), "a decoded redeemer set keeps its original bytes, in the map form and in the legacy array form")
}

var Registry = map[string]func(){
	"RedeemerWire":  RedeemerWire,
	"LangViewsInts": LangViewsInts,
	"ShortLex":      ShortLex,
	"LangViews":     LangViews,
	"DataHash":      DataHash,
}

// ShortLex: -1/0/1 by length first, then lexicographically; a strict weak order.
func ShortLex() {
	a, b := sym.Bytes("a", sym.Param("la")), sym.Bytes("b", sym.Param("lb"))
	r := common.ShortLex(a, b)
	want := 0
	switch {
	case len(a) < len(b):
		want = -1
	case len(a) > len(b):
		want = 1
	default:
		for i := len(a) - 1; i >= 0; i-- { // last differing position from the right = first from the left
			if a[i] < b[i] {
				want = -1
			} else if a[i] > b[i] {
				want = 1
			}
		}
	}
	sym.ObsInt("cmp", r)
	sym.Reach("decided")
	sym.Assert(r == want, "ShortLex orders by length, then lexicographically")
	sym.Assert(common.ShortLex(b, a) == -r, "ShortLex is antisymmetric")
}

func model(v uint) []int64 {
	return []int64{int64(sym.U64("cm" + string(rune('0'+v)) + "_0")), int64(sym.U64("cm" + string(rune('0'+v)) + "_1"))}
}

// refLangViews: the language-views encoding per the ledger specification: a definite map of
// the used languages, keys ordered by (length, then bytes): 1, 2, 3, then the double-wrapped
// PlutusV1 key 0x4100; V1's value is the bytestring-wrapped indefinite-length list.
func refLangViews(used [4]bool, cm map[uint][]int64) []byte {
	n := 0
	for _, u := range used {
		if u {
			n++
		}
	}
	out := []byte{0xa0 + byte(n)}
	for v := uint(1); v <= 3; v++ {
		if used[v] {
			out = append(out, byte(v))
			enc, _ := cbor.Encode(cm[v])
			out = append(out, enc...)
		}
	}
	if used[0] {
		out = append(out, 0x41, 0x00)
		l := make(cbor.IndefLengthList, len(cm[0]))
		for i, x := range cm[0] {
			l[i] = any(x)
		}
		inner, _ := cbor.Encode(l)
		wrapped, _ := cbor.Encode(inner)
		out = append(out, wrapped...)
	}
	return out
}

// LangViews: EncodeLangViews equals the reference for every subset of the four languages,
// whatever order the set is populated in; a language without a cost model is an error.
func LangViews() {
	mask, rot := sym.Param("subset"), sym.Param("rotation")
	used := [4]bool{}
	usedSet := map[uint]struct{}{}
	cm := map[uint][]int64{}
	missing := false
	for i := 0; i < 4; i++ {
		v := uint((i + rot) % 4)
		if mask&(1<<v) != 0 {
			used[v] = true
			usedSet[v] = struct{}{}
			if sym.Bool("has_model" + string(rune('0'+v))) {
				cm[v] = model(v)
			} else {
				missing = true
			}
		}
	}
	got, err := common.EncodeLangViews(usedSet, cm)
	sym.Reach("decided")
	if missing {
		sym.Assert(err != nil, "a used language without a cost model is an error")
		return
	}
	sym.Assert(err == nil, "language views encode when every used language has a cost model")
	sym.Assert(bytes.Equal(got, refLangViews(used, cm)), "language views: definite map, short-lex key order, PlutusV1 double-wrapped")
}

// DataHash (Conway): with redeemers or witness datums present the rule accepts iff the
// declared hash is Blake2b-256(original redeemer bytes || original datum bytes || language
// views); a declared hash without either is rejected, as is a missing one with them.
func DataHash() {
	tx := &conway.ConwayTransaction{}
	hasRedeemers, hasDatums := sym.Bool("has_redeemers"), sym.Bool("has_datums")
	var redeemerBytes, datumBytes []byte
	if hasRedeemers {
		tx.WitnessSet.WsRedeemers.Redeemers = map[common.RedeemerKey]common.RedeemerValue{{}: {}}
		redeemerBytes = sym.Bytes("redeemers_cbor", 3)
		tx.WitnessSet.WsRedeemers.SetCbor(redeemerBytes)
	}
	if !hasRedeemers {
		// no redeemers: the ledger hashes the encoding of an empty redeemer map
		redeemerBytes = []byte{0xa0}
	}
	if hasDatums {
		tx.WitnessSet.WsPlutusData = cbor.NewSetType([]common.Datum{{}}, false)
		datumBytes = sym.Bytes("datums_cbor", 2)
		tx.WitnessSet.WsPlutusData.SetCbor(datumBytes)
	}
	used := [4]bool{sym.Bool("uses_v1"), sym.Bool("uses_v2"), sym.Bool("uses_v3"), false}
	if used[0] {
		tx.WitnessSet.WsPlutusV1Scripts = cbor.NewSetType([]common.PlutusV1Script{{1}}, false)
	}
	if used[1] {
		tx.WitnessSet.WsPlutusV2Scripts = cbor.NewSetType([]common.PlutusV2Script{{1}}, false)
	}
	if used[2] {
		tx.WitnessSet.WsPlutusV3Scripts = cbor.NewSetType([]common.PlutusV3Script{{1}}, false)
	}
	pp := &conway.ConwayProtocolParameters{CostModels: map[uint][]int64{}}
	for v := uint(0); v < 3; v++ {
		pp.CostModels[v] = model(v)
	}
	declared := sym.Bool("hash_declared")
	genuine := sym.Bool("hash_genuine")
	if declared {
		input := append(append(append([]byte{}, redeemerBytes...), datumBytes...), refLangViews(used, pp.CostModels)...)
		want := common.Blake2b256Hash(input)
		h := common.Blake2b256(sym.Bytes("declared_hash", 32))
		if sym.Symbolic() {
			sym.Assume((h == want) == genuine)
		} else if genuine {
			h = want
		} else if h == want {
			h[0] ^= 1
		}
		tx.Body.TxScriptDataHash = &h
	}
	err := conway.UtxoValidateScriptDataHash(tx, 0, nil, pp)
	sym.ObsBool("accepted", err == nil)
	sym.Reach("decided")
	switch {
	case !hasRedeemers && !hasDatums:
		sym.Assert((err == nil) == !declared, "a declared hash without redeemers or datums is rejected")
	case !declared:
		sym.Assert(err != nil, "a missing hash with redeemers or datums is rejected")
	default:
		sym.Assert((err == nil) == genuine, "accepted iff the declared hash is H(original redeemers || original datums || language views)")
	}
}

// refInt: RFC 8949 preferred (shortest) encoding of an integer, written independently.
func refInt(v int64) []byte {
	major, arg := byte(0x00), uint64(v)
	if v < 0 {
		major, arg = 0x20, uint64(^v)
	}
	n := 0
	switch {
	case arg < 24:
		return []byte{major | byte(arg)}
	case arg < 1<<8:
		n = 1
	case arg < 1<<16:
		n = 2
	case arg < 1<<32:
		n = 4
	default:
		n = 8
	}
	out := []byte{major | byte(24+map[int]int{1: 0, 2: 1, 4: 2, 8: 3}[n])}
	for i := n - 1; i >= 0; i-- {
		out = append(out, byte(arg>>(8*uint(i))))
	}
	return out
}

func refBytesHead(n int) []byte {
	switch {
	case n < 24:
		return []byte{0x40 | byte(n)}
	case n < 256:
		return []byte{0x58, byte(n)}
	}
	return []byte{0x59, byte(n >> 8), byte(n)}
}

// LangViewsInts: the language views down to the integer encodings, for one language with a
// cost model of 1..2 parameters ranging over all of int64: PlutusV1 = {h'00': h'9f <ints> ff'}
// (double-wrapped, indefinite list), V2..V4 = {v: [ints]}; every parameter in its shortest
// RFC 8949 form.
func LangViewsInts() {
	cbor.VerifPreciseEncode = true
	v := uint(sym.Param("language"))
	n := sym.Param("params")
	var cm []int64
	for i := 0; i < n; i++ {
		cm = append(cm, int64(sym.U64("param"+string(rune('0'+i)))))
	}
	got, err := common.EncodeLangViews(map[uint]struct{}{v: {}}, map[uint][]int64{v: cm})
	sym.Reach("decided")
	sym.Assert(err == nil, "language views encode")
	var ints []byte
	for _, x := range cm {
		ints = append(ints, refInt(x)...)
	}
	want := []byte{0xa1}
	if v == 0 {
		inner := append(append([]byte{0x9f}, ints...), 0xff)
		want = append(want, 0x41, 0x00)
		want = append(want, refBytesHead(len(inner))...)
		want = append(want, inner...)
	} else {
		want = append(want, byte(v), 0x80|byte(n))
		want = append(want, ints...)
	}
	sym.Assert(bytes.Equal(got, want), "language views: every cost-model parameter in its shortest integer form, PlutusV1 as a byte-string-wrapped indefinite list")
}
