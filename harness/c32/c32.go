// Package c32: collateral covers the fee share the protocol demands.
package c32

import (
	"math/big"

	"verifharness/stubs"
	"verifharness/sym"

	"github.com/blinklabs-io/gouroboros/cbor"
	"github.com/blinklabs-io/gouroboros/ledger/alonzo"
	"github.com/blinklabs-io/gouroboros/ledger/babbage"
	"github.com/blinklabs-io/gouroboros/ledger/common"
	"github.com/blinklabs-io/gouroboros/ledger/conway"
	"github.com/blinklabs-io/gouroboros/ledger/dijkstra"
	"github.com/blinklabs-io/gouroboros/ledger/mary"
	"github.com/blinklabs-io/gouroboros/ledger/shelley"
)

var Registry = map[string]func(){
	"Insufficient": Insufficient,
	"NoCollateral": NoCollateral,
	"TooMany":      TooMany,
	"NonAda":       NonAda,
	"InRuleList":   InRuleList,
}

type rule = func(common.Transaction, uint64, common.LedgerState, common.ProtocolParameters) error

type eraDef struct {
	insufficient, none, tooMany, nonAda rule
	list                                []common.UtxoValidationRuleFunc
}

func era(e int) eraDef {
	switch e {
	case 3:
		return eraDef{alonzo.UtxoValidateInsufficientCollateral, alonzo.UtxoValidateNoCollateralInputs, alonzo.UtxoValidateTooManyCollateralInputs, alonzo.UtxoValidateCollateralContainsNonAda, alonzo.UtxoValidationRules}
	case 4:
		return eraDef{babbage.UtxoValidateInsufficientCollateral, babbage.UtxoValidateNoCollateralInputs, babbage.UtxoValidateTooManyCollateralInputs, babbage.UtxoValidateCollateralContainsNonAda, babbage.UtxoValidationRules}
	case 5:
		return eraDef{conway.UtxoValidateInsufficientCollateral, conway.UtxoValidateNoCollateralInputs, conway.UtxoValidateTooManyCollateralInputs, conway.UtxoValidateCollateralContainsNonAda, conway.UtxoValidationRules}
	}
	return eraDef{dijkstra.UtxoValidateInsufficientCollateral, dijkstra.UtxoValidateNoCollateralInputs, dijkstra.UtxoValidateTooManyCollateralInputs, dijkstra.UtxoValidateCollateralContainsNonAda, dijkstra.UtxoValidationRules}
}

func collInputs(n int) cbor.SetType[shelley.ShelleyTransactionInput] {
	ins := make([]shelley.ShelleyTransactionInput, n)
	for i := range ins {
		ins[i].OutputIndex = uint32(i)
	}
	return cbor.NewSetType(ins, false)
}

func pparams(e int, pct, max uint) common.ProtocolParameters {
	switch e {
	case 3:
		return &alonzo.AlonzoProtocolParameters{CollateralPercentage: pct, MaxCollateralInputs: max}
	case 4:
		return &babbage.BabbageProtocolParameters{CollateralPercentage: pct, MaxCollateralInputs: max}
	case 5:
		return &conway.ConwayProtocolParameters{CollateralPercentage: pct, MaxCollateralInputs: max}
	}
	pp := &dijkstra.DijkstraProtocolParameters{}
	pp.CollateralPercentage, pp.MaxCollateralInputs = pct, max
	return pp
}

// mkTx builds the era's real transaction struct: fee, n collateral inputs (output index i),
// `redeemers` redeemers, and from Babbage on an optional collateral return output.
func mkTx(e int, fee uint64, n int, redeemers int, ret *babbage.BabbageTransactionOutput) common.Transaction {
	legacy := make([]alonzo.AlonzoRedeemer, redeemers)
	for i := range legacy {
		legacy[i].Index = uint32(i)
	}
	modern := map[common.RedeemerKey]common.RedeemerValue{}
	for i := 0; i < redeemers; i++ {
		modern[common.RedeemerKey{Index: uint32(i)}] = common.RedeemerValue{}
	}
	switch e {
	case 3:
		t := &alonzo.AlonzoTransaction{}
		t.Body.TxFee, t.Body.TxCollateral = fee, collInputs(n)
		t.WitnessSet.WsRedeemers.Redeemers = legacy
		return t
	case 4:
		t := &babbage.BabbageTransaction{}
		t.Body.TxFee, t.Body.TxCollateral, t.Body.TxCollateralReturn = fee, collInputs(n), ret
		t.WitnessSet.WsRedeemers.Redeemers = legacy
		return t
	case 5:
		t := &conway.ConwayTransaction{}
		t.Body.TxFee, t.Body.TxCollateral, t.Body.TxCollateralReturn = fee, collInputs(n), ret
		// Conway still accepts redeemers in the legacy array form: either form, symbolically
		if sym.Bool("redeemers_in_legacy_array_form") {
			t.WitnessSet.WsRedeemers = conway.VerifLegacyRedeemers(redeemers)
		} else {
			t.WitnessSet.WsRedeemers.Redeemers = modern
		}
		return t
	}
	t := &dijkstra.DijkstraTransaction{}
	t.Body.TxFee, t.Body.TxCollateral = fee, collInputs(n)
	if ret != nil {
		t.Body.TxCollateralReturn = &dijkstra.DijkstraTransactionOutput{Output: ret}
	}
	t.WitnessSet.WsRedeemers.Redeemers = modern
	return t
}

func ledgerWith(n int, withTokens []bool) (stubs.Ledger, []*big.Int) {
	ls := stubs.Ledger{}
	var coins []*big.Int
	for i := 0; i < n; i++ {
		c := sym.BigNonNeg("coll" + string(rune('0'+i)))
		coins = append(coins, c)
		o := stubs.Output{Coin: c}
		if withTokens != nil && withTokens[i] {
			ma := tokens()
			o.Multi = &ma
		}
		ls.Outs = append(ls.Outs, o)
	}
	return ls, coins
}

var policy = common.Blake2b224{1}

func tokens() common.MultiAsset[common.MultiAssetTypeOutput] {
	return common.NewMultiAsset[common.MultiAssetTypeOutput](map[common.Blake2b224]map[cbor.ByteString]*big.Int{
		policy: {cbor.NewByteString([]byte{0xaa}): big.NewInt(5)},
	})
}

// Insufficient: with redeemers present the rule accepts iff
// (sum of collateral inputs - collateral return) * 100 >= fee * percentage, exactly.
func Insufficient() {
	e, n := sym.Param("era"), sym.Param("n")
	fee, pct := sym.U64("fee"), sym.U64("pct")
	var ret *babbage.BabbageTransactionOutput
	retAmt := uint64(0)
	if e >= 4 && sym.Bool("has_return") {
		retAmt = sym.U64("return")
		ret = &babbage.BabbageTransactionOutput{OutputAmount: mary.MaryTransactionOutputValue{Amount: retAmt}}
	}
	tx := mkTx(e, fee, n, 1, ret)
	ls, coins := ledgerWith(n, nil)
	err := era(e).insufficient(tx, 0, ls, pparams(e, uint(pct), 3))
	sym.ObsBool("accepted", err == nil)
	bal := new(big.Int)
	for _, c := range coins {
		bal.Add(bal, c)
	}
	bal.Sub(bal, new(big.Int).SetUint64(retAmt))
	lhs := new(big.Int).Mul(bal, big.NewInt(100))
	rhs := new(big.Int).Mul(new(big.Int).SetUint64(fee), new(big.Int).SetUint64(pct))
	sym.Reach("decided")
	sym.Assert((err == nil) == (lhs.Cmp(rhs) >= 0), "accepted iff collateral balance * 100 >= fee * percentage")
}

// NoCollateral: a transaction that runs scripts needs at least one collateral input.
func NoCollateral() {
	e, n, red := sym.Param("era"), sym.Param("n"), sym.Param("redeemers")
	tx := mkTx(e, sym.U64("fee"), n, red, nil)
	ls, _ := ledgerWith(n, nil)
	err := era(e).none(tx, 0, ls, pparams(e, 150, 3))
	sym.Reach("decided")
	sym.Assert((err == nil) == (red == 0 || n > 0), "accepted iff no scripts run or at least one collateral input")
}

// TooMany: no more collateral inputs than the protocol maximum.
func TooMany() {
	e, n := sym.Param("era"), sym.Param("n")
	max := sym.U64("max")
	tx := mkTx(e, 0, n, 1, nil)
	ls, _ := ledgerWith(n, nil)
	r := era(e).tooMany
	err := r(tx, 0, ls, pparams(e, 150, uint(max)))
	sym.Reach("decided")
	sym.Assert((err == nil) == (uint64(n) <= max), "accepted iff collateral inputs <= protocol maximum")
}

// NonAda: collateral must be ada-only unless the non-ada part is returned in full.
func NonAda() {
	e, n := sym.Param("era"), 2
	tok := []bool{sym.Bool("tokens0"), sym.Bool("tokens1")}
	var ret *babbage.BabbageTransactionOutput
	returned := false
	if e >= 4 && sym.Bool("has_return") {
		ret = &babbage.BabbageTransactionOutput{}
		if sym.Bool("return_tokens") {
			ma := tokens()
			if tok[0] && tok[1] {
				ma.Add(&ma)
			}
			ret.OutputAmount.Assets = &ma
			returned = true
		}
	}
	tx := mkTx(e, 0, n, 1, ret)
	ls, _ := ledgerWith(n, tok)
	err := era(e).nonAda(tx, 0, ls, pparams(e, 150, 3))
	hasTokens := tok[0] || tok[1]
	sym.Reach("decided")
	sym.Assert((err == nil) == (!hasTokens || returned), "accepted iff collateral is ada-only or the tokens are returned in full")
}

// InRuleList: the four collateral rules are members of the era's validation rule list, so
// that "validation accepts" implies each of them accepted.
func InRuleList() {
	d := era(sym.Param("era"))
	sym.Reach("decided")
	sym.Assert(stubs.InList(d.list, d.insufficient), "insufficient-collateral rule is in the era's rule list")
	sym.Assert(stubs.InList(d.list, d.none), "no-collateral-inputs rule is in the era's rule list")
	sym.Assert(stubs.InList(d.list, d.tooMany), "too-many-collateral-inputs rule is in the era's rule list")
	sym.Assert(stubs.InList(d.list, d.nonAda), "collateral-contains-non-ada rule is in the era's rule list")
}
