// Package c33: reward withdrawals are gated on DRep delegation only at PV10 and PV11.
package c33

import (
	"errors"

	"verifharness/stubs"
	"verifharness/sym"

	"github.com/blinklabs-io/gouroboros/ledger/common"
	"github.com/blinklabs-io/gouroboros/ledger/conway"
	"github.com/blinklabs-io/gouroboros/ledger/dijkstra"
)

var Registry = map[string]func(){
	"Gate":       Gate,
	"InRuleList": InRuleList,
}

var errLookup = errors.New("stub ledger: delegation lookup failed")

// ledger without the DRep-delegation capability
type plainLedger struct {
	common.LedgerState
	registered map[common.Blake2b224]bool
}

func (l plainLedger) IsRewardAccountRegistered(c common.Credential) bool {
	return l.registered[c.Credential]
}

// ledger with the capability: per account delegated / undelegated / lookup error
type drepLedger struct {
	plainLedger
	state map[common.Blake2b224]int // 0 undelegated, 1 delegated, 2 error
}

func (l drepLedger) DRepDelegation(c common.Credential) (*common.Drep, error) {
	switch l.state[c.Credential] {
	case 1:
		return &common.Drep{}, nil
	case 2:
		return nil, errLookup
	}
	return nil, nil
}

func rewardAddr(i int) *common.Address {
	b := make([]byte, 29)
	b[0] = 0xe1 // reward account, key hash, mainnet
	b[1] = byte(i + 1)
	a, err := common.NewAddressFromBytes(b)
	if err != nil {
		panic(err)
	}
	return &a
}

func hashOf(i int) common.Blake2b224 {
	var h common.Blake2b224
	h[0] = byte(i + 1)
	return h
}

// Gate: with all withdrawing accounts registered key-hash accounts,
//
//	not-delegated error  <=> valid && PV in {10,11} && some non-zero withdrawal is undelegated
//	unavailable error    <=> valid && PV in {10,11} && some non-zero withdrawal && no capability
//	otherwise accepted (lookup errors aside).
func Gate() {
	n := sym.Param("n")            // number of withdrawals
	capability := sym.Param("cap") // 1: ledger implements DRepDelegationState
	dijkstraPP := sym.Param("pp")  // 0 Conway, 1 Dijkstra parameter type
	pv := sym.U64("pv")
	valid := sym.Bool("is_valid")
	tx := &conway.ConwayTransaction{TxIsValid: valid}
	tx.Body.TxWithdrawals = map[*common.Address]uint64{}
	reg := map[common.Blake2b224]bool{}
	state := map[common.Blake2b224]int{}
	amounts := make([]uint64, n)
	deleg := make([]uint64, n)
	for i := 0; i < n; i++ {
		amounts[i] = sym.U64("amount" + string(rune('0'+i)))
		tx.Body.TxWithdrawals[rewardAddr(i)] = amounts[i]
		reg[hashOf(i)] = true
		d := sym.U64("deleg" + string(rune('0'+i)))
		sym.Assume(d <= 1) // lookup errors are exercised by the thorough tier parameter below
		if sym.Param("lookup_errors") == 1 {
			d = sym.U64("delegx" + string(rune('0'+i)))
			sym.Assume(d <= 2)
		}
		deleg[i] = d
		state[hashOf(i)] = int(d)
	}
	var pp common.ProtocolParameters
	if dijkstraPP == 1 {
		p := &dijkstra.DijkstraProtocolParameters{}
		p.ProtocolVersion.Major = uint(pv)
		pp = p
	} else {
		p := &conway.ConwayProtocolParameters{}
		p.ProtocolVersion.Major = uint(pv)
		pp = p
	}
	var ls common.LedgerState
	if capability == 1 {
		ls = drepLedger{plainLedger{registered: reg}, state}
	} else {
		ls = plainLedger{registered: reg}
	}
	err := conway.UtxoValidateWithdrawals(tx, 0, ls, pp)

	gated := valid && (pv == 10 || pv == 11)
	anyNonZero, anyUndelegated, anyLookupErr := false, false, false
	for i := 0; i < n; i++ {
		if amounts[i] != 0 {
			anyNonZero = true
			if deleg[i] == 0 {
				anyUndelegated = true
			}
			if deleg[i] == 2 {
				anyLookupErr = true
			}
		}
	}
	var notDelegated conway.WithdrawalNotDelegatedToDRepError
	var unavailable conway.DRepDelegationStateUnavailableError
	isNotDelegated := errors.As(err, &notDelegated)
	isUnavailable := errors.As(err, &unavailable)
	sym.ObsBool("accepted", err == nil)
	sym.Reach("decided")
	if capability == 1 {
		sym.Assert(!isUnavailable, "no 'state unavailable' error when the ledger can answer")
		if !anyLookupErr {
			sym.Assert(isNotDelegated == (gated && anyUndelegated), "not-delegated error iff valid, PV 10/11 and a non-zero withdrawal lacks a DRep delegation")
			sym.Assert((err == nil) == !(gated && anyUndelegated), "accepted otherwise")
		} else {
			sym.Assert(!gated || err != nil, "a failing delegation lookup at PV 10/11 is not accepted")
		}
	} else {
		sym.Assert(isUnavailable == (gated && anyNonZero), "'state unavailable' iff valid, PV 10/11, a non-zero withdrawal and no capability")
		sym.Assert(!isNotDelegated, "no not-delegated error without the capability")
		sym.Assert((err == nil) == !(gated && anyNonZero), "accepted otherwise (no capability)")
	}
}

// InRuleList: the rule is in Conway's and Dijkstra's rule lists.
func InRuleList() {
	sym.Reach("decided")
	sym.Assert(stubs.InList(conway.UtxoValidationRules, conway.UtxoValidateWithdrawals), "withdrawal rule is in Conway's rule list")
	sym.Assert(stubs.InList(dijkstra.UtxoValidationRules, conway.UtxoValidateWithdrawals), "withdrawal rule is in Dijkstra's rule list")
}
