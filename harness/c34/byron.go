package c34

import (
	"bytes"
	"encoding/hex"
	"os"
	"strings"

	"verifharness/sym"

	"github.com/blinklabs-io/gouroboros/cbor"
	"github.com/blinklabs-io/gouroboros/ledger"
	"github.com/blinklabs-io/gouroboros/ledger/byron"
	"github.com/blinklabs-io/gouroboros/ledger/common"
	"github.com/blinklabs-io/gouroboros/ledger/dijkstra"
)

func init() {
	Registry["ByronProof"] = ByronProof
	Registry["ByronBlock"] = ByronBlock
	Registry["DijkstraBlock"] = DijkstraBlock
}

// DijkstraBlock: the Dijkstra block constructor (validation enabled, the default) fails
// unless the header's body hash is the hash of the body's wire bytes. Symbolically the body is
// a block body object whose stored bytes are symbolic; natively it is the repository's real
// Dijkstra block, and a body that does not match is the same body re-framed without changing
// any decoded value (the transaction list 80 written as 9f ff), which only the bytes betray.
func DijkstraBlock() {
	genuine := sym.Bool("body_matches_header")
	var data []byte
	if sym.Symbolic() {
		blk := &dijkstra.DijkstraBlock{BlockHeader: &dijkstra.DijkstraBlockHeader{}}
		body := sym.Bytes("body", 5)
		blk.BlockBody.SetCbor(body)
		h := common.Blake2b256(sym.Bytes("header_body_hash", 32))
		sym.Assume((h == common.Blake2b256Hash(body)) == genuine)
		blk.BlockHeader.Body.BlockBodyHash = h
		cbor.VerifDepositValue = blk
		data = []byte{0x82, 0, 0}
	} else {
		raw, err := os.ReadFile("/repo/ledger/dijkstra/testdata/musashi_dijkstra_block.hex")
		if err != nil {
			panic(err)
		}
		data, err = hex.DecodeString(strings.TrimSpace(string(raw)))
		if err != nil {
			panic(err)
		}
		if !genuine {
			body := []byte{0x84, 0xf6, 0x80, 0xf6, 0xf6}
			i := bytes.LastIndex(data, body)
			if i < 0 || i+len(body) != len(data) {
				panic("the fixture's body is not 84 f6 80 f6 f6")
			}
			data = append(append([]byte{}, data[:i]...), 0x84, 0xf6, 0x9f, 0xff, 0xf6, 0xf6)
		}
	}
	_, err := ledger.NewBlockFromCbor(ledger.BlockTypeDijkstra, data)
	sym.ObsBool("accepted", err == nil)
	sym.Reach("decided")
	sym.Assert(!genuine || err == nil, "a Dijkstra block whose body bytes match its header's hash decodes")
	sym.Assert(genuine || err != nil, "a Dijkstra block whose body bytes differ from what its header commits to fails to decode")
}

func h256(b []byte) []byte {
	h := common.Blake2b256Hash(b)
	return h[:]
}

// pick returns want when genuine, otherwise some other 32 bytes (symbolically: a free hash
// constrained to differ; natively: want with one bit flipped)
func pick(name string, want []byte, genuine bool) []byte {
	if sym.Symbolic() {
		free := sym.Bytes(name, 32)
		sym.Assume(bytes.Equal(free, want) == genuine)
		return free
	}
	out := append([]byte{}, want...)
	if !genuine {
		out[0] ^= 1
	}
	return out
}

// ByronProof: ValidateBodyProof accepts a main block iff the header's proof commits to every
// body component: transaction count, merkle root over the transaction bodies, hash of the
// witness list, hash of the delegation payload, hash of the update payload (the ssc proof is
// taken to be well-shaped). Symbolically the block has 0..1 transactions with symbolic
// bytes; natively it is the repository's real Byron block with the header's proof entries
// replaced according to the model.
func ByronProof() {
	countOK, merkleOK, witsOK := sym.Bool("tx_count_matches"), sym.Bool("tx_merkle_root_matches"), sym.Bool("witness_hash_matches")
	dlgOK, updOK := sym.Bool("delegation_hash_matches"), sym.Bool("update_hash_matches")
	var b *byron.ByronMainBlock
	var n int
	var wantMerkle, wantWits, wantDlg, wantUpd []byte
	if sym.Symbolic() {
		n = sym.Param("txs")
		var bodies, wits [][]byte
		for i := 0; i < n; i++ {
			bodies = append(bodies, sym.Bytes("txbody", 3))
			wits = append(wits, sym.Bytes("txwit", 2))
		}
		dlg, upd := sym.Bytes("dlg", 2), sym.Bytes("upd", 3)
		// reference commitments (written from the Byron block specification)
		if n == 0 {
			wantMerkle = h256(nil)
		} else {
			wantMerkle = h256(append([]byte{0x00}, bodies[0]...))
		}
		wl := []byte{0x9f}
		for _, w := range wits {
			wl = append(wl, w...)
		}
		wantWits = h256(append(wl, 0xff))
		wantDlg, wantUpd = h256(dlg), h256(upd)
		b = byron.VerifMainBlock(nil, bodies, wits, dlg, upd)
	} else {
		var err error
		b, err = byron.NewByronMainBlockFromCbor(fixture("byron"), common.VerifyConfig{SkipBodyHashValidation: true})
		if err != nil {
			panic(err)
		}
		proof := b.BlockHeader.BodyProof.([]any)
		txp := proof[0].([]any)
		n = len(b.Body.TxPayload)
		wantMerkle, wantWits = txp[1].([]byte), txp[2].([]byte)
		wantDlg, wantUpd = proof[2].([]byte), proof[3].([]byte)
		sym.Assert(b.ValidateBodyProof() == nil, "the repository's real Byron block validates")
	}
	count := uint64(n)
	if !countOK {
		count++
	}
	sscProof := any([]any{uint64(0)})
	if !sym.Symbolic() {
		sscProof = b.BlockHeader.BodyProof.([]any)[1]
	}
	b.BlockHeader.BodyProof = []any{
		[]any{count, pick("merkle", wantMerkle, merkleOK), pick("wits", wantWits, witsOK)},
		sscProof,
		pick("dlgproof", wantDlg, dlgOK),
		pick("updproof", wantUpd, updOK),
	}
	err := b.ValidateBodyProof()
	sym.ObsBool("accepted", err == nil)
	sym.Reach("decided")
	all := countOK && merkleOK && witsOK && dlgOK && updOK
	sym.Assert(!all || err == nil, "a Byron block whose body matches every proof component is accepted")
	sym.Assert(all || err != nil, "a Byron block is rejected when any body component differs from the header's proof")
}

// ByronBlock: the Byron main block constructor (validation enabled, the default) runs that
// check: decoding fails unless the body matches the header's proof. Natively: the real block,
// with one byte of the chosen body component changed when the model says it does not match.
func ByronBlock() {
	which := sym.U8("mismatching_component") // 0 none, 1 transactions, 3 delegation, 4 update
	sym.Assume(which == 0 || which == 1 || which == 3 || which == 4)
	var data []byte
	if sym.Symbolic() {
		dlg, upd := sym.Bytes("dlg", 2), sym.Bytes("upd", 3)
		proof := []any{
			[]any{uint64(0), pick("merkle", h256(nil), which != 1), h256([]byte{0x9f, 0xff})},
			[]any{uint64(0)},
			pick("dlgproof", h256(dlg), which != 3),
			pick("updproof", h256(upd), which != 4),
		}
		cbor.VerifDepositValue = byron.VerifMainBlock(proof, nil, nil, dlg, upd)
		data = []byte{0x80}
	} else {
		data = append([]byte{}, fixture("byron")...)
		if which != 0 {
			var blk, body []cbor.RawMessage
			if _, err := cbor.Decode(data, &blk); err != nil {
				panic(err)
			}
			if _, err := cbor.Decode(blk[1], &body); err != nil {
				panic(err)
			}
			part := body[which-1]
			bodyOff := bytes.Index(data, blk[1])
			off := bodyOff + bytes.Index(blk[1], part)
			// change the last content byte of the component (keeps the CBOR well-formed for the
			// real block: the tx list gains a different body byte, 0x80 -> 0x81 would not)
			switch which {
			case 1:
				data[off+len(part)/2] ^= 0x01
			default:
				// [] (0x80) cannot be changed in place: replace an inner empty list by null
				i := bytes.IndexByte(part[1:], 0x80)
				if i < 0 {
					data[off+len(part)-1] ^= 0x01
				} else {
					data[off+1+i] = 0xf6
				}
			}
		}
	}
	_, err := ledger.NewBlockFromCbor(ledger.BlockTypeByronMain, data)
	sym.ObsBool("accepted", err == nil)
	sym.Reach("decided")
	sym.Assert(which != 0 || err == nil, "a Byron block whose body matches its header's proof decodes")
	sym.Assert(which == 0 || err != nil, "a Byron block whose body differs from its header's proof fails to decode")
}
