// Package c34: block bodies are bound to their headers at decode time.
package c34

import (
	"encoding/hex"
	"os"
	"strings"

	"verifharness/ghost"
	"verifharness/sym"

	"github.com/blinklabs-io/gouroboros/cbor"
	"github.com/blinklabs-io/gouroboros/ledger"
	"github.com/blinklabs-io/gouroboros/ledger/allegra"
	"github.com/blinklabs-io/gouroboros/ledger/alonzo"
	"github.com/blinklabs-io/gouroboros/ledger/babbage"
	"github.com/blinklabs-io/gouroboros/ledger/common"
	"github.com/blinklabs-io/gouroboros/ledger/conway"
	"github.com/blinklabs-io/gouroboros/ledger/mary"
	"github.com/blinklabs-io/gouroboros/ledger/shelley"
	"golang.org/x/crypto/blake2b"
)

var Registry = map[string]func(){
	"BodyHash":  BodyHash,
	"EraBlocks": EraBlocks,
}

// block builds a well-formed block array of n items (symbolic leaves); returns the bytes and
// each item's byte range.
func block(n int) ([]byte, [][2]int) {
	data := sym.Bytes("blk", 1+3*n)
	off := ghost.PutHead(data, 0, 4, ghost.FormImm, n)
	var items [][2]int
	for i := 0; i < n; i++ {
		l := ghost.LeafK(data, off, "item"+string(rune('0'+i)), uint8(sym.Param("leaf_kinds")))
		items = append(items, [2]int{off, off + l})
		off += l
	}
	ghost.Tie(data, 0, off)
	return data[:off], items
}

// refBodyHash: H(H(item_1) || ... || H(item_k-1)) over the body segments.
func refBodyHash(data []byte, items [][2]int, k int) [32]byte {
	var cat []byte
	for i := 1; i < k; i++ {
		h := blake2b.Sum256(data[items[i][0]:items[i][1]])
		cat = append(cat, h[:]...)
	}
	return blake2b.Sum256(cat)
}

// BodyHash: ValidateBlockBodyHash accepts iff the block has at least k items and the expected
// hash is the hash of the k-1 segment hashes.
func BodyHash() {
	n, k := sym.Param("items"), sym.Param("segments")
	data, items := block(n)
	expected := common.Blake2b256(sym.Bytes("expected", 32))
	genuine := sym.Bool("expected_is_genuine")
	if n >= k {
		want := common.Blake2b256(refBodyHash(data, items, k))
		if sym.Symbolic() {
			sym.Assume((expected == want) == genuine)
		} else if genuine {
			expected = want
		} else if expected == want {
			expected[0] ^= 1
		}
	}
	err := common.ValidateBlockBodyHash(data, expected, "test", k)
	sym.ObsBool("accepted", err == nil)
	sym.Reach("decided")
	if n < k {
		sym.Assert(err != nil, "a block with fewer items than the era's segment count is rejected")
		return
	}
	sym.Assert(!genuine || err == nil, "a body hash equal to the hash of the segment hashes is accepted")
	sym.Assert(genuine || err != nil, "a body hash different from the hash of the segment hashes is rejected")
}

func fixture(name string) []byte {
	raw, err := os.ReadFile("/repo/internal/testdata/" + name + "_block.hex")
	if err != nil {
		panic(err)
	}
	b, err := hex.DecodeString(strings.TrimSpace(string(raw)))
	if err != nil {
		panic(err)
	}
	return b
}

// EraBlocks: each era's block constructor (validation enabled, the default) fails unless the
// header's body hash commits to all of the era's body segments: Shelley/Allegra/Mary 3
// segments, Alonzo..Conway 4.
func EraBlocks() {
	era := sym.Param("era")
	names := []string{"", "shelley", "allegra", "mary", "alonzo", "babbage", "conway"}
	segs := []int{0, 4, 4, 4, 5, 5, 5}
	bt := []uint{0, ledger.BlockTypeShelley, ledger.BlockTypeAllegra, ledger.BlockTypeMary, ledger.BlockTypeAlonzo, ledger.BlockTypeBabbage, ledger.BlockTypeConway}
	genuine := sym.Bool("body_matches_header")
	var data []byte
	if sym.Symbolic() {
		var items [][2]int
		data, items = block(segs[era])
		h := common.Blake2b256(sym.Bytes("header_body_hash", 32))
		sym.Assume((h == common.Blake2b256(refBodyHash(data, items, segs[era]))) == genuine)
		switch era {
		case 1:
			b := &shelley.ShelleyBlock{BlockHeader: &shelley.ShelleyBlockHeader{}}
			b.BlockHeader.Body.BlockBodyHash = h
			cbor.VerifDepositValue = b
		case 2:
			b := &allegra.AllegraBlock{BlockHeader: &allegra.AllegraBlockHeader{}}
			b.BlockHeader.Body.BlockBodyHash = h
			cbor.VerifDepositValue = b
		case 3:
			b := &mary.MaryBlock{BlockHeader: &mary.MaryBlockHeader{}}
			b.BlockHeader.Body.BlockBodyHash = h
			cbor.VerifDepositValue = b
		case 4:
			b := &alonzo.AlonzoBlock{BlockHeader: &alonzo.AlonzoBlockHeader{}}
			b.BlockHeader.Body.BlockBodyHash = h
			cbor.VerifDepositValue = b
		case 5:
			b := &babbage.BabbageBlock{BlockHeader: &babbage.BabbageBlockHeader{}}
			b.BlockHeader.Body.BlockBodyHash = h
			cbor.VerifDepositValue = b
		default:
			b := &conway.ConwayBlock{BlockHeader: &conway.ConwayBlockHeader{}}
			b.BlockHeader.Body.BlockBodyHash = h
			cbor.VerifDepositValue = b
		}
	} else {
		// natively: the repository's real block of the era, with one body byte flipped when
		// the model says the body does not match the header
		data = fixture(names[era])
		if !genuine {
			var raw []cbor.RawMessage
			if _, err := cbor.Decode(data, &raw); err != nil {
				panic(err)
			}
			last := raw[len(raw)-1]
			pos := len(data) - 1
			_ = last
			data = append([]byte{}, data...)
			data[pos] ^= 0x01
		}
	}
	_, err := ledger.NewBlockFromCbor(bt[era], data)
	sym.ObsBool("accepted", err == nil)
	sym.Reach("decided")
	sym.Assert(!genuine || err == nil, "a block whose body matches its header's commitment decodes")
	sym.Assert(genuine || err != nil, "a block whose body differs from what its header commits to fails to decode")
}
