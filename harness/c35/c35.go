// Package c35: Byron merkle roots follow the reference construction.
package c35

import (
	"verifharness/sym"

	"github.com/blinklabs-io/gouroboros/ledger/byron"
	"github.com/blinklabs-io/gouroboros/ledger/common"
)

var Registry = map[string]func(){
	"Root": Root,
}

// reference construction (independent of the implementation): leaves tagged 0, branches
// tagged 1, split at the largest power of two strictly below the count.
func refSplit(n int) int {
	p := 1
	for p < n {
		p <<= 1
	}
	return p >> 1
}

func refNode(items [][]byte) common.Blake2b256 {
	if len(items) == 1 {
		buf := []byte{0}
		buf = append(buf, items[0]...)
		return common.Blake2b256Hash(buf)
	}
	k := refSplit(len(items))
	l, r := refNode(items[:k]), refNode(items[k:])
	buf := []byte{1}
	buf = append(buf, l[:]...)
	buf = append(buf, r[:]...)
	return common.Blake2b256Hash(buf)
}

func refRoot(items [][]byte) common.Blake2b256 {
	if len(items) == 0 {
		return common.Blake2b256Hash([]byte{})
	}
	return refNode(items)
}

// Root: MerkleRoot equals the reference construction for n items of symbolic content.
func Root() {
	n := sym.Param("n")
	items := make([][]byte, n)
	for i := range items {
		items[i] = sym.Bytes("item"+string(rune('a'+i)), 2)
	}
	got := byron.MerkleRoot(items)
	want := refRoot(items)
	sym.Reach("decided")
	sym.Assert(got == want, "MerkleRoot equals the reference construction")
}
