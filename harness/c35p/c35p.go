// Package c35p: the split-point helper of the Byron merkle tree, called directly (kept in its
// own package: it needs a shim that only builds while the helper exists).
package c35p

import (
	"verifharness/sym"

	"github.com/blinklabs-io/gouroboros/ledger/byron"
)

var Registry = map[string]func(){
	"Power": Power,
}

// Power: for every 2 <= n <= 2^32 the split point is a power of two, strictly below n, and
// the largest such (2*p >= n).
func Power() {
	n := sym.Int("n")
	sym.Assume(n >= 2 && n <= 1<<32)
	p := byron.VerifLargestPowerOfTwoBelow(n)
	sym.ObsInt("p", p)
	sym.Reach("decided")
	sym.Assert(p >= 1 && p&(p-1) == 0, "split point is a power of two")
	sym.Assert(p < n, "split point is strictly below the item count")
	sym.Assert(2*p >= n, "split point is the largest power of two below the item count")
}
