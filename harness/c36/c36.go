// Package c36: era dispatch is consistent across every entry point.
package c36

import (
	"encoding/hex"
	"os"
	"strings"

	"verifharness/sym"

	"github.com/blinklabs-io/gouroboros/cbor"
	"github.com/blinklabs-io/gouroboros/ledger"
	"github.com/blinklabs-io/gouroboros/ledger/allegra"
	"github.com/blinklabs-io/gouroboros/ledger/alonzo"
	"github.com/blinklabs-io/gouroboros/ledger/babbage"
	"github.com/blinklabs-io/gouroboros/ledger/common"
	"github.com/blinklabs-io/gouroboros/ledger/conway"
	"github.com/blinklabs-io/gouroboros/ledger/dijkstra"
	"github.com/blinklabs-io/gouroboros/ledger/mary"
	"github.com/blinklabs-io/gouroboros/ledger/shelley"
)

var Registry = map[string]func(){
	"Determine": Determine,
	"Ranges":    Ranges,
	"Maps":      Maps,
	"Blocks":    Blocks,
	"Headers":   Headers,
}

type eraRange struct {
	blockType uint
	min, max  uint64
	eraId     uint8
}

// the declared ranges, read from the era packages' own constants
func ranges() []eraRange {
	return []eraRange{
		{ledger.BlockTypeShelley, shelley.MinProtocolVersionShelley, shelley.MaxProtocolVersionShelley, shelley.EraIdShelley},
		{ledger.BlockTypeAllegra, allegra.MinProtocolVersionAllegra, allegra.MaxProtocolVersionAllegra, allegra.EraIdAllegra},
		{ledger.BlockTypeMary, mary.MinProtocolVersionMary, mary.MaxProtocolVersionMary, mary.EraIdMary},
		{ledger.BlockTypeAlonzo, alonzo.MinProtocolVersionAlonzo, alonzo.MaxProtocolVersionAlonzo, alonzo.EraIdAlonzo},
		{ledger.BlockTypeBabbage, babbage.MinProtocolVersionBabbage, babbage.MaxProtocolVersionBabbage, babbage.EraIdBabbage},
		{ledger.BlockTypeConway, conway.MinProtocolVersionConway, conway.MaxProtocolVersionConway, conway.EraIdConway},
		{ledger.BlockTypeDijkstra, dijkstra.MinProtocolVersionDijkstra, dijkstra.MaxProtocolVersionDijkstra, dijkstra.EraIdDijkstra},
	}
}

// header builds the generically decoded form of a block header: [body, signature] with the
// protocol major version where the layout puts it.
func header(layout int, pm uint64) any {
	var body []any
	if layout == 0 { // Shelley-like: 15 fields, protocol major at index 13
		body = make([]any, 15)
		for i := range body {
			body[i] = uint64(0)
		}
		body[13] = pm
	} else { // Babbage-like: 10 fields, protocol version pair at index 9
		body = make([]any, 10)
		for i := range body {
			body[i] = uint64(0)
		}
		body[9] = []any{pm, uint64(0)}
	}
	return []any{body, []byte{1}}
}

// Determine: the inferred block type's declared range contains the header's protocol major;
// a version inside the ranges natural to the layout is never rejected; a version outside
// every range is rejected.
func Determine() {
	layout := sym.Param("layout")
	pm := sym.U64("proto_major")
	hdr := header(layout, pm)
	cbor.VerifDepositValue = hdr
	data, encErr := cbor.Encode(hdr)
	sym.Assume(encErr == nil)
	bt, err := ledger.DetermineBlockType(data)
	sym.ObsBool("err", err != nil)
	rs := ranges()
	inAny := false
	for _, r := range rs {
		if pm >= r.min && pm <= r.max {
			inAny = true
		}
	}
	if err == nil {
		sym.Reach("typed")
		sym.ObsU64("type", uint64(bt))
		ok := false
		for _, r := range rs {
			if bt == r.blockType && pm >= r.min && pm <= r.max {
				ok = true
			}
		}
		sym.Assert(ok, "the inferred block type's declared version range contains the protocol major")
		return
	}
	sym.Reach("rejected")
	lo, hi := 0, 3 // Shelley..Alonzo use the 15-field layout
	if layout == 1 {
		lo, hi = 4, 6 // Babbage..Dijkstra use the 10-field layout
	}
	for i := lo; i <= hi; i++ {
		sym.Assert(!(pm >= rs[i].min && pm <= rs[i].max), "a protocol major inside an era range of this header layout is not rejected")
	}
	_ = inAny
}

// Ranges: the declared version ranges are well-formed and pairwise disjoint, so a protocol
// major belongs to at most one era.
func Ranges() {
	rs := ranges()
	pm := sym.U64("proto_major")
	n := 0
	for _, r := range rs {
		sym.Assert(r.min <= r.max, "era version range is non-empty")
		if pm >= r.min && pm <= r.max {
			n++
		}
	}
	sym.Reach("decided")
	sym.Assert(n <= 1, "a protocol major version belongs to at most one era")
}

// Maps: the header-type -> block-type and block-type -> header-type maps are mutually inverse.
func Maps() {
	k := uint(sym.U64("key"))
	sym.Reach("decided")
	if v, ok := ledger.BlockHeaderToBlockTypeMap[k]; ok {
		back, ok2 := ledger.BlockToBlockHeaderTypeMap[v]
		sym.Assert(ok2 && back == k, "block-type map inverts the header-type map")
	}
	if v, ok := ledger.BlockToBlockHeaderTypeMap[k]; ok {
		back, ok2 := ledger.BlockHeaderToBlockTypeMap[v]
		sym.Assert(ok2 && back == k, "header-type map inverts the block-type map")
	}
	sym.Assert(len(ledger.BlockHeaderToBlockTypeMap) == len(ledger.BlockToBlockHeaderTypeMap), "maps have the same size")
}

func eraOf(bt uint) (uint8, bool) {
	if bt == ledger.BlockTypeByronEbb || bt == ledger.BlockTypeByronMain {
		return 0, true
	}
	for _, r := range ranges() {
		if r.blockType == bt {
			return r.eraId, true
		}
	}
	return 0, false
}

// fixture returns, natively, the repository's real test block of the given type (so that the
// replay of a counterexample decodes real bytes); under the executor the bytes are opaque.
func fixture(bt uint, data []byte) []byte {
	if sym.Symbolic() {
		return data
	}
	names := map[uint]string{1: "byron", 2: "shelley", 3: "allegra", 4: "mary", 5: "alonzo", 6: "babbage", 7: "conway"}
	n, ok := names[bt]
	if !ok {
		return data
	}
	raw, err := os.ReadFile("/repo/internal/testdata/" + n + "_block.hex")
	if err != nil {
		return data
	}
	b, err := hex.DecodeString(strings.TrimSpace(string(raw)))
	if err != nil {
		return data
	}
	return b
}

// Blocks: decoding as block type T yields a block that reports type T and T's era.
func Blocks() {
	bt := uint(sym.U64("block_type"))
	sym.Assume(bt <= 12)
	data := fixture(bt, sym.Bytes("data", 4))
	blk, err := ledger.NewBlockFromCbor(bt, data, common.VerifyConfig{SkipBodyHashValidation: true})
	want, known := eraOf(bt)
	if !known {
		sym.Reach("unknown")
		sym.Assert(err != nil, "an unknown block type is rejected")
		return
	}
	if err != nil {
		return
	}
	sym.Reach("decoded")
	sym.Assert(uint(blk.Type()) == bt, "a block decoded as type T reports type T")
	sym.Assert(blk.Era().Id == want, "a block decoded as type T reports T's era")
}

// Headers: same for the header entry point.
func Headers() {
	bt := uint(sym.U64("block_type"))
	sym.Assume(bt <= 12)
	data := sym.Bytes("data", 4)
	h, err := ledger.NewBlockHeaderFromCbor(bt, data)
	want, known := eraOf(bt)
	if !known {
		sym.Reach("unknown")
		sym.Assert(err != nil, "an unknown block type is rejected")
		return
	}
	if err != nil {
		return
	}
	sym.Reach("decoded")
	sym.Assert(h.Era().Id == want, "a header decoded as type T reports T's era")
}
