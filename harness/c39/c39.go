// Package c39: KES signatures are period-bound (verification side) and the KES window
// arithmetic of operational certificates (C40).
package c39

import (
	"bytes"
	"crypto/ed25519"

	"verifharness/sym"

	"github.com/blinklabs-io/gouroboros/kes"
	"github.com/blinklabs-io/gouroboros/ledger"
)

var Registry = map[string]func(){
	"PeriodBound": PeriodBound,
	"KeyBound":    KeyBound,
	"Window":      Window,
}

// PeriodBound: a signature verifies under one public key and message at no more than one
// period, and at no period >= 2^depth.
func PeriodBound() {
	depth := sym.Param("depth")
	msg := sym.Bytes("msg", 2)
	s := sym.Bytes("sig", 64+64*depth)
	vkey := sym.Bytes("vkey", 32)
	t1, t2 := sym.U64("period1"), sym.U64("period2")
	genuine := false
	if !sym.Symbolic() {
		// natively: a genuine signature, made with the real signer by a key evolved
		// period1 (mod 2^depth) times
		t1 %= 1 << uint(depth)
		sk, pk, kerr := kes.KeyGen(uint64(depth), make([]byte, 32))
		if kerr != nil {
			panic(kerr)
		}
		for i := uint64(0); i < t1; i++ {
			if sk, kerr = kes.Update(sk); kerr != nil {
				panic(kerr)
			}
		}
		gs, serr := kes.Sign(sk, t1, msg)
		if serr != nil {
			panic(serr)
		}
		s, vkey, genuine = gs, pk, true
	}
	proof, err := kes.NewSumKesFromBytes(uint64(depth), s)
	sym.Assume(err == nil)
	// honest key structure: at every level the two subtree keys differ, and the leaf
	// signature verifies under at most one of the two innermost keys
	for l := 0; l < depth; l++ {
		sym.Assume(!equal(s[64+64*l:96+64*l], s[96+64*l:128+64*l]))
	}
	sym.Assume(!(ed25519.Verify(ed25519.PublicKey(s[64:96]), msg, s[0:64]) && ed25519.Verify(ed25519.PublicKey(s[96:128]), msg, s[0:64])))
	v1 := proof.Verify(t1, vkey, msg)
	v2 := proof.Verify(t2, vkey, msg)
	sym.Reach("decided")
	if genuine {
		sym.Assert(v1, "a genuine signature verifies at the period it was made for")
		sym.Assert(!v2 || t1 == t2, "a genuine signature verifies at no other period")
	}
	if t1 >= 1<<uint(depth) {
		sym.Assert(!v1, "no signature verifies at a period >= 2^depth")
	}
	if v1 && v2 {
		sym.Reach("both")
		sym.Assert(t1 == t2, "a signature verifies at one period only")
	}
}

func equal(a, b []byte) bool { return bytes.Equal(a, b) }

// KeyBound: a signature verifies under one public key only.
func KeyBound() {
	depth := sym.Param("depth")
	msg := sym.Bytes("msg", 2)
	s := sym.Bytes("sig", 64+64*depth)
	k1, k2 := sym.Bytes("vkey1", 32), sym.Bytes("vkey2", 32)
	t := sym.U64("period")
	if !sym.Symbolic() {
		// natively: a genuine signature and key; the second key differs from the genuine one
		// exactly where the model's two keys differ
		t %= 1 << uint(depth)
		sk, pk, kerr := kes.KeyGen(uint64(depth), make([]byte, 32))
		if kerr != nil {
			panic(kerr)
		}
		for i := uint64(0); i < t; i++ {
			if sk, kerr = kes.Update(sk); kerr != nil {
				panic(kerr)
			}
		}
		gs, serr := kes.Sign(sk, t, msg)
		if serr != nil {
			panic(serr)
		}
		other := append([]byte{}, pk...)
		for i := range other {
			other[i] ^= k1[i] ^ k2[i]
		}
		s, k1, k2 = gs, pk, other
	}
	proof, err := kes.NewSumKesFromBytes(uint64(depth), s)
	sym.Assume(err == nil)
	if proof.Verify(t, k1, msg) && proof.Verify(t, k2, msg) {
		sym.Reach("both")
		sym.Assert(equal(k1, k2), "a signature verifies under one public key only")
	}
	sym.Reach("decided")
}

// Window (C40): ValidateKesPeriod accepts iff the parameters are non-zero and the certificate's
// start period <= current period < start + max evolutions, and returns the number of evolutions.
func Window() {
	cert, slot, per, max := sym.U64("cert_period"), sym.U64("slot"), sym.U64("slots_per_period"), sym.U64("max_evolutions")
	ev, err := ledger.ValidateKesPeriod(cert, slot, per, max)
	sym.ObsBool("ok", err == nil)
	sym.Reach("decided")
	if per == 0 || max == 0 {
		sym.Assert(err != nil, "zero parameters are rejected")
		return
	}
	cur := slot / per
	inWindow := cur >= cert && cur-cert < max
	sym.Assert((err == nil) == inWindow, "accepted iff certificate period <= current period < certificate period + max evolutions")
	if err == nil {
		sym.Assert(ev == cur-cert, "the number of evolutions is current period - certificate period")
	}
}
