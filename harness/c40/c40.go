// Package c40: the consensus header validator's KES window (the ledger-side window is checked
// by harness Window in package c39).
package c40

import (
	"verifharness/sym"

	"github.com/blinklabs-io/gouroboros/consensus"
)

var Registry = map[string]func(){
	"ConsensusWindow": ConsensusWindow,
}

// ConsensusWindow: HeaderValidator.validateKESPeriod (step 7 of ValidateHeader) accepts a
// header iff slots-per-period is non-zero and the certificate's start period <= current
// period < start + max evolutions, for all uint64 slots and parameters and every uint32
// certificate period.
func ConsensusWindow() {
	per, max, slot := sym.U64("slots_per_period"), sym.U64("max_evolutions"), sym.U64("slot")
	cert := sym.U32("cert_period")
	err := consensus.VerifKESWindow(per, max, slot, cert)
	sym.ObsBool("ok", err == nil)
	sym.Reach("decided")
	if per == 0 {
		sym.Assert(err != nil, "zero slots per KES period is rejected")
		return
	}
	cur := slot / per
	inWindow := cur >= uint64(cert) && cur-uint64(cert) < max
	sym.Assert((err == nil) == inWindow, "accepted iff certificate period <= current period < certificate period + max evolutions")
}
