package c40

import (
	"testing"

	"verifharness/sym"
)

func TestReplayBatch(t *testing.T) {
	if sym.RunBatch(Registry) {
		t.Log("some replayed harness failed (reported per item)")
	}
}
