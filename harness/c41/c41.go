// Package c41: chain selection is a consistent preference order.
package c41

import (
	"math/big"

	"verifharness/sym"

	"github.com/blinklabs-io/gouroboros/consensus"
)

var Registry = map[string]func(){
	"Antisym":     Antisym,
	"Trans":       Trans,
	"Semantics":   Semantics,
	"DensAntisym": DensAntisym,
	"DensTrans":   DensTrans,
	"DensSem":     DensSem,
	"Preferred":   Preferred,
}

// tip builds a real WindowedChainTip: symbolic block number, VRF output of vl symbolic bytes,
// w symbolic block slots.
func tip(name string, vl, w int) consensus.ChainTip {
	slots := make([]uint64, w)
	for i := range slots {
		slots[i] = sym.U64(name + "_slot" + string(rune('0'+i)))
	}
	return consensus.NewWindowedChainTip(sym.U64(name+"_tipslot"), sym.U64(name+"_bn"), sym.Bytes(name+"_vrf", vl), slots)
}

func sign(x int) int {
	switch {
	case x > 0:
		return 1
	case x < 0:
		return -1
	}
	return 0
}

func sel() *consensus.PraosChainSelector {
	k, win := sym.U64("k"), sym.U64("window")
	sym.Assume(win > 0) // the canonical Genesis metric; the legacy float ratio is outside the claim
	return consensus.NewPraosChainSelectorWithWindow(k, win)
}

// Antisym: Compare(a,b) = -Compare(b,a).
func Antisym() {
	a, b := tip("a", sym.Param("la"), 0), tip("b", sym.Param("lb"), 0)
	p := consensus.NewPraosChainSelector(sym.U64("k"))
	sym.Reach("decided")
	sym.Assert(sign(p.Compare(a, b)) == -sign(p.Compare(b, a)), "Compare is antisymmetric")
}

// Trans: a>=b and b>=c imply a>=c.
func Trans() {
	a, b, c := tip("a", sym.Param("la"), 0), tip("b", sym.Param("lb"), 0), tip("c", sym.Param("lc"), 0)
	p := consensus.NewPraosChainSelector(sym.U64("k"))
	if p.Compare(a, b) >= 0 && p.Compare(b, c) >= 0 {
		sym.Reach("premise")
		sym.Assert(p.Compare(a, c) >= 0, "Compare is transitive")
	}
}

func vrfVal(t consensus.ChainTip) *big.Int { return new(big.Int).SetBytes(t.VRFOutput()) }

// Semantics: longer chain wins; on equal length the lower VRF output wins, a missing VRF
// output loses to a present one.
func Semantics() {
	a, b := tip("a", sym.Param("la"), 0), tip("b", sym.Param("lb"), 0)
	p := consensus.NewPraosChainSelector(sym.U64("k"))
	r := p.Compare(a, b)
	sym.ObsInt("cmp", r)
	sym.Reach("decided")
	switch {
	case a.BlockNumber() > b.BlockNumber():
		sym.Assert(r > 0, "the longer chain wins")
	case a.BlockNumber() < b.BlockNumber():
		sym.Assert(r < 0, "the longer chain wins (mirrored)")
	case len(a.VRFOutput()) == 0 || len(b.VRFOutput()) == 0:
		sym.Assert(sign(r) == sign(len(a.VRFOutput())-len(b.VRFOutput())), "with equal length a missing VRF output loses")
	default:
		sym.Assert(sign(r) == -vrfVal(a).Cmp(vrfVal(b)), "with equal length the lower VRF output wins")
	}
}

func forkPoint() (consensus.ForkPoint, uint64) {
	return consensus.ForkPoint{Slot: sym.U64("fork_slot"), BlockNumber: sym.U64("fork_bn")}, sym.U64("current_bn")
}

// DensAntisym: CompareWithDensity is antisymmetric at a fixed fork point.
func DensAntisym() {
	w := sym.Param("w")
	a, b := tip("a", sym.Param("la"), w), tip("b", sym.Param("lb"), w)
	p := sel()
	f, cur := forkPoint()
	sym.Reach("decided")
	sym.Assert(sign(p.CompareWithDensity(a, b, f, cur)) == -sign(p.CompareWithDensity(b, a, f, cur)), "CompareWithDensity is antisymmetric")
}

// DensTrans: CompareWithDensity is transitive at a fixed fork point.
func DensTrans() {
	w := sym.Param("w")
	a, b, c := tip("a", 1, w), tip("b", 1, w), tip("c", 1, w)
	p := sel()
	f, cur := forkPoint()
	if p.CompareWithDensity(a, b, f, cur) >= 0 && p.CompareWithDensity(b, c, f, cur) >= 0 {
		sym.Reach("premise")
		sym.Assert(p.CompareWithDensity(a, c, f, cur) >= 0, "CompareWithDensity is transitive")
	}
}

// refBlocks: reference count of block slots in (fork, fork+window].
func refBlocks(slots []uint64, fork, window uint64) int {
	n := 0
	for _, s := range slots {
		if s > fork && new(big.Int).Sub(new(big.Int).SetUint64(s), new(big.Int).SetUint64(fork)).Cmp(new(big.Int).SetUint64(window)) <= 0 {
			n++
		}
	}
	return n
}

// DensSem: a fork deeper than k blocks is decided by window density first; otherwise (and
// on equal density) by the length/VRF order.
func DensSem() {
	w := sym.Param("w")
	sa, sb := make([]uint64, w), make([]uint64, w)
	for i := 0; i < w; i++ {
		sa[i], sb[i] = sym.U64("a_slot"+string(rune('0'+i))), sym.U64("b_slot"+string(rune('0'+i)))
	}
	a := consensus.NewWindowedChainTip(0, sym.U64("a_bn"), sym.Bytes("a_vrf", 1), sa)
	b := consensus.NewWindowedChainTip(0, sym.U64("b_bn"), sym.Bytes("b_vrf", 1), sb)
	k, win := sym.U64("k"), sym.U64("window")
	sym.Assume(win > 0)
	p := consensus.NewPraosChainSelectorWithWindow(k, win)
	f, cur := forkPoint()
	r := p.CompareWithDensity(a, b, f, cur)
	deep := cur > f.BlockNumber && cur-f.BlockNumber > k
	da, db := refBlocks(sa, f.Slot, win), refBlocks(sb, f.Slot, win)
	sym.ObsInt("cmp", r)
	if deep && da != db {
		sym.Reach("deep")
		sym.Assert(sign(r) == sign(da-db), "a deep fork is decided by window density first")
		return
	}
	sym.Reach("shallow-or-tie")
	sym.Assert(sign(r) == sign(p.Compare(a, b)), "a shallow fork (or equal density) is decided by length, then VRF")
}

// Preferred: the preferred candidate is maximal, and all orders of the candidates give an
// equivalent answer.
func Preferred() {
	w := sym.Param("w")
	c := []consensus.ChainTip{tip("a", 1, w), tip("b", 1, w), tip("c", 1, w)}
	p := sel()
	f, cur := forkPoint()
	cmp := func(x, y consensus.ChainTip) int { return p.CompareWithDensity(x, y, f, cur) }
	perms := [][3]int{{0, 1, 2}, {0, 2, 1}, {1, 0, 2}, {1, 2, 0}, {2, 0, 1}, {2, 1, 0}}
	first := p.PreferredWithDensity([]consensus.ChainTip{c[0], c[1], c[2]}, f, cur)
	for _, x := range c {
		sym.Assert(cmp(first, x) >= 0, "the preferred candidate is a maximal element")
	}
	for _, pm := range perms[1:] {
		r := p.PreferredWithDensity([]consensus.ChainTip{c[pm[0]], c[pm[1]], c[pm[2]]}, f, cur)
		sym.Assert(cmp(r, first) == 0, "the preferred candidate does not depend on the order of the candidates")
	}
	sym.Reach("decided")
}
