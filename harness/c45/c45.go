// Package c45: reward calculation distributes exactly the reward pot.
package c45

import (
	"math/big"

	"verifharness/sym"

	"github.com/blinklabs-io/gouroboros/ledger/common"
)

var Registry = map[string]func(){
	"Rewards":   Rewards,
	"PoolSplit": PoolSplit,
}

// PoolSplit: the real distributePoolRewards for an arbitrary pool total: operator plus
// delegator rewards add up exactly to the total and no partial sum exceeds it, whatever the
// floating-point proportions come out as. (Harness Rewards with the split replaced by its
// contract then decides the pool totals; together: the whole calculation.)
func PoolSplit() {
	nDel := sym.Param("delegators")
	total := sym.U64("pool_total")
	cert := &common.PoolRegistrationCertificate{Cost: sym.U64("cost")}
	snap := common.RewardSnapshot{StakeRegistrations: map[common.AddrKeyHash]bool{}}
	dels := map[common.AddrKeyHash]uint64{}
	for j := 0; j < nDel; j++ {
		var a common.AddrKeyHash
		a[0] = byte(j + 1)
		dtag := "del" + string(rune('0'+j))
		dels[a] = sym.U64(dtag + "_stake")
		if sym.Bool(dtag + "_registered") {
			snap.StakeRegistrations[a] = true
		}
		if sym.Bool(dtag + "_is_owner") {
			cert.PoolOwners = append(cert.PoolOwners, a)
		}
	}
	pr := common.VerifDistributePoolRewards(total, dels, cert, snap)
	sym.Reach("decided")
	sym.Assert(pr.TotalRewards == total, "the pool total is reported unchanged")
	sym.Assert(pr.OperatorRewards <= total, "the operator reward does not exceed the pool total")
	inner := pr.OperatorRewards
	for _, r := range pr.DelegatorRewards {
		sym.Assert(r <= total-inner, "operator and delegator rewards never exceed the pool total (no wrap-around)")
		inner += r
	}
	sym.Assert(inner == total, "operator plus delegator rewards add up exactly to the pool total")
}

// Rewards: CalculateRewards on a snapshot with 1..2 pools of 0..2 delegators each: symbolic
// pot, stakes, costs, block counts, owner and registration flags. Under the executor every
// float64 result is an arbitrary value (the executor does not model floating point), so what
// is decided holds whatever the rounding does: when the calculation succeeds the pool totals
// add up exactly to the pot, each pool's operator and delegator rewards add up exactly to the
// pool total, and no amount exceeds the pot (no wrap-around in any of the sums).
func Rewards() {
	nPools, nDel := sym.Param("pools"), sym.Param("delegators")
	rot := sym.Param("rotation")
	pot := sym.U64("pot")
	snap := common.RewardSnapshot{
		TotalActiveStake:   sym.U64("total_active_stake"),
		PoolStake:          map[common.PoolKeyHash]uint64{},
		DelegatorStake:     map[common.PoolKeyHash]map[common.AddrKeyHash]uint64{},
		PoolParams:         map[common.PoolKeyHash]*common.PoolRegistrationCertificate{},
		StakeRegistrations: map[common.AddrKeyHash]bool{},
		PoolBlocks:         map[common.PoolKeyHash]uint32{},
		TotalBlocksInEpoch: sym.U32("total_blocks"),
	}
	var pools []common.PoolKeyHash
	for k := 0; k < nPools; k++ {
		i := (k + rot) % nPools // insertion order = iteration order under the executor
		var id common.PoolKeyHash
		id[0] = byte(i + 1)
		pools = append(pools, id)
		tag := "pool" + string(rune('0'+i))
		snap.PoolStake[id] = sym.U64(tag + "_stake")
		snap.PoolBlocks[id] = sym.U32(tag + "_blocks")
		cert := &common.PoolRegistrationCertificate{Cost: sym.U64(tag + "_cost")}
		dels := map[common.AddrKeyHash]uint64{}
		for j := 0; j < nDel; j++ {
			var a common.AddrKeyHash
			a[0], a[1] = byte(i+1), byte(j+1)
			dtag := tag + "_del" + string(rune('0'+j))
			dels[a] = sym.U64(dtag + "_stake")
			if sym.Bool(dtag + "_registered") {
				snap.StakeRegistrations[a] = true
			}
			if sym.Bool(dtag + "_is_owner") {
				cert.PoolOwners = append(cert.PoolOwners, a)
			}
		}
		snap.PoolParams[id] = cert
		if nDel > 0 || sym.Bool(tag+"_has_delegator_map") {
			snap.DelegatorStake[id] = dels
		}
	}
	res, err := common.CalculateRewards(common.AdaPots{Rewards: pot}, snap, common.RewardParameters{PoolInfluence: new(big.Rat)})
	sym.Reach("decided")
	if err != nil {
		sym.Reach("error")
		return
	}
	if pot == 0 || snap.TotalActiveStake == 0 {
		sym.Assert(len(res.PoolRewards) == 0 && res.TotalRewards == 0, "nothing to distribute: no rewards")
		return
	}
	sym.Reach("distributed")
	sym.Assert(len(res.PoolRewards) == nPools, "every pool of the snapshot gets a result")
	sum := uint64(0)
	for _, id := range pools {
		pr, ok := res.PoolRewards[id]
		sym.Assert(ok, "every pool of the snapshot gets a result")
		sym.Assert(pr.TotalRewards <= pot-sum, "pool totals never exceed what is left of the pot (no wrap-around)")
		sum += pr.TotalRewards
		sym.Assert(pr.OperatorRewards <= pr.TotalRewards, "the operator reward does not exceed the pool total")
		inner := pr.OperatorRewards
		for _, r := range pr.DelegatorRewards {
			sym.Assert(r <= pr.TotalRewards-inner, "operator and delegator rewards never exceed the pool total (no wrap-around)")
			inner += r
		}
		sym.Assert(inner == pr.TotalRewards, "operator plus delegator rewards add up exactly to the pool total")
	}
	sym.Assert(sum == pot, "pool totals add up exactly to the reward pot")
	sym.Assert(res.UpdatedPots.Rewards == 0 && res.TotalRewards == pot, "the pot is reported as fully distributed")
}
