// Package c46: DMQ messages are accepted only when fully authenticated.
package c46

import (
	"bytes"
	"crypto/ed25519"

	"verifharness/sym"

	"github.com/blinklabs-io/gouroboros/cbor"
	pcommon "github.com/blinklabs-io/gouroboros/protocol/common"
)

var Registry = map[string]func(){
	"Verify": Verify,
	"NoOp":   NoOp,
}

// coldKey: pool i's cold verification key. Natively a real ed25519 key (so that replays can
// carry genuine signatures); under the executor two distinct constants.
func coldKey(i int) []byte {
	if sym.Symbolic() {
		k := make([]byte, 32)
		k[0] = byte(i + 1)
		return k
	}
	return coldPriv(i).Public().(ed25519.PublicKey)
}

func coldPriv(i int) ed25519.PrivateKey {
	seed := make([]byte, 32)
	seed[0] = byte(i + 1)
	return ed25519.NewKeyFromSeed(seed)
}

// Verify: one message against an arbitrary authenticator state. Accepting implies every
// authentication step; the opcert cache afterwards holds the accepted issue number for the
// pool and nothing else changed; a rejected message leaves the cache unchanged.
func Verify() {
	a := pcommon.NewMessageAuthenticator(nil)
	// state: two pools, registration and cache entries symbolic
	var pool [2]string
	var registered, cached [2]bool
	var cachedNo [2]uint64
	for i := 0; i < 2; i++ {
		name := string(rune('0' + i))
		pool[i] = pcommon.VerifPoolID(a, coldKey(i))
		registered[i] = sym.Bool("registered" + name)
		if registered[i] {
			a.RegisterSPOPool(pool[i])
		}
		cached[i] = sym.Bool("cached" + name)
		if cached[i] {
			cachedNo[i] = sym.U64("cached_issue" + name)
			pcommon.VerifCacheSet(a, pool[i], cachedNo[i])
		}
	}
	hasVerifier, insecure := sym.Bool("has_verifier"), sym.Bool("allow_insecure")
	kesValid, kesErr := sym.Bool("kes_valid"), sym.Bool("kes_error")
	if hasVerifier {
		a.SetKESVerifier(func(_, _, _ []byte, _, _, _ uint64) (bool, error) {
			if kesErr {
				return false, bytes.ErrTooLarge
			}
			return kesValid, nil
		})
	}
	a.SetAllowInsecureKES(insecure)

	// the message: field lengths are parameters (the stated sizes and their neighbours)
	who := 0
	if sym.Bool("from_pool1") {
		who = 1
	}
	cold := coldKey(who)[:sym.Param("cold_len")]
	payload := pcommon.DmqMessagePayload{MessageBody: sym.Bytes("body", 2), KESPeriod: sym.U64("kes_period"), ExpiresAt: sym.U32("expires")}
	opcert := pcommon.OperationalCertificate{
		KESVerificationKey: sym.Bytes("kes_vkey", sym.Param("kes_vkey_len")),
		IssueNumber:        sym.U64("issue"),
		KESPeriod:          sym.U64("cert_kes_period"),
		ColdSignature:      sym.Bytes("cold_sig", sym.Param("cold_sig_len")),
	}
	// whether the id and the cold signature are genuine is symbolic; natively they are then
	// really computed, under the executor the idealised primitives are constrained to agree
	idGenuine, sigGenuine := sym.Bool("id_genuine"), sym.Bool("cold_sig_genuine")
	id := sym.Bytes("id", sym.Param("id_len"))
	certBytes, _ := cbor.Encode([]any{opcert.KESVerificationKey, opcert.IssueNumber, opcert.KESPeriod})
	if sym.Symbolic() {
		want, _ := pcommon.ComputeDmqMessageID(payload)
		sym.Assume(bytes.Equal(id, want) == idGenuine)
		if len(cold) == 32 && len(opcert.ColdSignature) == 64 {
			sym.Assume(ed25519.Verify(ed25519.PublicKey(cold), certBytes, opcert.ColdSignature) == sigGenuine)
		}
	} else {
		if idGenuine && len(id) == 32 {
			id, _ = pcommon.ComputeDmqMessageID(payload)
		}
		if sigGenuine && len(opcert.ColdSignature) == 64 {
			opcert.ColdSignature = ed25519.Sign(coldPriv(who), certBytes)
		}
	}
	msg := &pcommon.DmqMessage{
		MessageID:              id,
		Payload:                payload,
		KESSignature:           make([]byte, sym.Param("kes_sig_len")),
		OperationalCertificate: opcert,
		ColdVerificationKey:    cold,
	}
	// reference predicates, from the same idealised primitives
	wantID, idErr := pcommon.ComputeDmqMessageID(payload)
	idOK := idErr == nil && bytes.Equal(msg.MessageID, wantID)
	certCbor, _ := cbor.Encode([]any{opcert.KESVerificationKey, opcert.IssueNumber, opcert.KESPeriod})
	coldOK := len(cold) == 32 && len(opcert.ColdSignature) == 64 && ed25519.Verify(ed25519.PublicKey(cold), certCbor, opcert.ColdSignature)
	shapeOK := len(msg.KESSignature) == 448 && len(opcert.KESVerificationKey) == 32
	kesOK := shapeOK && ((hasVerifier && !kesErr && kesValid) || (!hasVerifier && insecure))
	full := who == 0 && len(cold) == 32 || who == 1 && len(cold) == 32
	rotationOK := !cached[who] || opcert.IssueNumber >= cachedNo[who]

	err := a.VerifyMessage(msg)
	sym.ObsBool("accepted", err == nil)
	sym.Reach("decided")
	if err == nil {
		sym.Reach("accepted")
		sym.Assert(idOK, "accepted => the id is the hash of the payload")
		sym.Assert(coldOK, "accepted => the operational certificate is signed by the message's cold key")
		sym.Assert(kesOK, "accepted => the KES signature verified (or no verifier and insecure mode was enabled)")
		sym.Assert(full && registered[who], "accepted => the issuing pool is registered")
		sym.Assert(rotationOK, "accepted => the certificate counter is not below one accepted before")
		got, ok := pcommon.VerifCacheGet(a, pool[who])
		sym.Assert(ok && got == opcert.IssueNumber, "after acceptance the cache holds the accepted counter")
	} else {
		sym.Assert(!(idOK && coldOK && kesOK && registered[who] && rotationOK), "a fully authenticated message is accepted")
		got, ok := pcommon.VerifCacheGet(a, pool[who])
		sym.Assert(ok == cached[who] && (!ok || got == cachedNo[who]), "a rejected message leaves the cache unchanged")
	}
	other := 1 - who
	got, ok := pcommon.VerifCacheGet(a, pool[other])
	sym.Assert(ok == cached[other] && (!ok || got == cachedNo[other]), "other pools' cache entries are untouched")
}

// NoOp: the explicitly disabled authenticator accepts everything (by design).
func NoOp() {
	a := pcommon.NewNoOpAuthenticator(nil)
	err := a.VerifyMessage(&pcommon.DmqMessage{MessageID: sym.Bytes("id", 3)})
	sym.Reach("decided")
	sym.Assert(err == nil, "validation disabled: accepts (asserted as designed)")
}
