// Package ghost builds inputs for code that sits on top of the CBOR library. Under the
// symbolic executor the library is replaced by a contract (shims/cbor_shim.go) that consults
// an uninterpreted "extent of the well-formed item at this offset" function; the helpers
// here constrain symbolic bytes to spell well-formed CBOR *and* tie that function to the
// structure they describe, so that the contract and the real library (native replay) agree.
package ghost

import (
	"verifharness/sym"

	"github.com/blinklabs-io/gouroboros/cbor"
)

// Tie states that a well-formed item of length l starts at data[off].
func Tie(data []byte, off, l int) {
	if sym.Symbolic() {
		sym.Assume(cbor.VerifItemLen(data, off) == l)
	}
}

// Leaf constrains data[off:] to start with a well-formed leaf item -- an unsigned integer in
// its 1-, 2- or 3-byte head form, value symbolic -- and returns its length. The form is
// chosen by a symbolic selector, so the executor forks and offsets stay concrete.
func Leaf(data []byte, off int, name string) int { return LeafK(data, off, name, 2) }

// LeafK is Leaf with the selector ranging over 0..maxKind: 0..2 unsigned integer in 1/2/3
// bytes, 3 negative integer (one byte), 4 one-byte byte string (two bytes).
func LeafK(data []byte, off int, name string, maxKind uint8) int {
	k := sym.U8(name + "_form")
	sym.Assume(k <= maxKind)
	l := 1
	switch {
	case k == 0:
		sym.Assume(off+1 <= len(data))
		sym.Assume(data[off] < 0x18)
	case k == 1:
		l = 2
		sym.Assume(off+2 <= len(data))
		sym.Assume(data[off] == 0x18)
	case k == 2:
		l = 3
		sym.Assume(off+3 <= len(data))
		sym.Assume(data[off] == 0x19)
	case k == 3:
		sym.Assume(off+1 <= len(data))
		sym.Assume(data[off] >= 0x20 && data[off] < 0x38)
	case k == 4:
		l = 2
		sym.Assume(off+2 <= len(data))
		sym.Assume(data[off] == 0x41)
	default: // 5: a two-element array of small unsigned integers (the shape of a legacy output)
		l = 3
		sym.Assume(off+3 <= len(data))
		sym.Assume(data[off] == 0x82 && data[off+1] < 0x18 && data[off+2] < 0x18)
		Tie(data, off+1, 1)
		Tie(data, off+2, 1)
	}
	Tie(data, off, l)
	return l
}

// Output constrains data[off:] to start with an item of one of the shapes a transaction
// output can have on the wire -- chosen by a symbolic selector: 0 definite array [a, b],
// 1 definite map {k: v}, 2 indefinite map {_ k: v}, 3 indefinite array [_ a] -- and returns
// its length.
func Output(data []byte, off int, name string) int {
	k := sym.U8(name + "_shape")
	sym.Assume(k <= 3)
	l := 3
	small := func(i int) {
		sym.Assume(data[i] < 0x18)
		Tie(data, i, 1)
	}
	switch {
	case k == 0:
		sym.Assume(off+3 <= len(data))
		sym.Assume(data[off] == 0x82)
		small(off + 1)
		small(off + 2)
	case k == 1:
		sym.Assume(off+3 <= len(data))
		sym.Assume(data[off] == 0xa1)
		small(off + 1)
		small(off + 2)
	case k == 2:
		l = 4
		sym.Assume(off+4 <= len(data))
		sym.Assume(data[off] == 0xbf && data[off+3] == 0xff)
		small(off + 1)
		small(off + 2)
	default:
		sym.Assume(off+3 <= len(data))
		sym.Assume(data[off] == 0x9f && data[off+2] == 0xff)
		small(off + 1)
	}
	Tie(data, off, l)
	return l
}

// Fixed is LeafK with one fixed kind.
func Fixed(data []byte, off int, name string, kind uint8) int {
	k := sym.U8(name + "_form")
	sym.Assume(k == kind)
	return LeafK(data, off, name, kind)
}

// Head forms of a CBOR array/map head: 0 immediate, 1..4 = 1/2/4/8-byte argument, 5 indefinite.
const (
	FormImm = iota
	Form1
	Form2
	Form4
	Form8
	FormIndef
)

// HeadLen is the number of bytes of a head in the given form.
func HeadLen(form int) int {
	switch form {
	case FormImm, FormIndef:
		return 1
	case Form1:
		return 2
	case Form2:
		return 3
	case Form4:
		return 5
	}
	return 9
}

// PutHead constrains data[off:] to spell the head of a container of major type mt (4 array,
// 5 map) with count n in the given form, and returns the head length.
func PutHead(data []byte, off int, mt byte, form int, n int) int {
	hl := HeadLen(form)
	sym.Assume(off+hl <= len(data))
	b0 := mt << 5
	switch form {
	case FormImm:
		sym.Assume(n < 24)
		sym.Assume(data[off] == b0|byte(n))
	case FormIndef:
		sym.Assume(data[off] == b0|0x1f)
	default:
		sym.Assume(data[off] == b0|byte(23+form))
		for i := 1; i < hl; i++ {
			shift := uint(8 * (hl - 1 - i))
			sym.Assume(data[off+i] == byte(uint64(n)>>shift))
		}
	}
	return hl
}

// Range is a byte range [Off, Off+Len) of a ghost item.
type Range struct{ Off, Len int }

// PutLeafArray constrains data[off:] to spell an array (head in the given form) of n leaf
// items (LeafK kinds 0..maxKind), with the break byte for the indefinite form, ties the item
// extents and the array's own extent, and returns the array's range and its items' ranges.
func PutLeafArray(data []byte, off int, form int, n int, name string, maxKind uint8) (Range, []Range) {
	start := off
	off += PutHead(data, off, 4, form, n)
	items := make([]Range, n)
	for i := 0; i < n; i++ {
		l := LeafK(data, off, name+string(rune('0'+i)), maxKind)
		items[i] = Range{off, l}
		off += l
	}
	if form == FormIndef {
		sym.Assume(off+1 <= len(data) && data[off] == 0xff)
		off++
	}
	Tie(data, start, off-start)
	return Range{start, off - start}, items
}

// BytesLeaf constrains data[off:] to start with a byte string of n (24..255) bytes in the
// one-byte-length form, contents free, and returns its length n+2.
func BytesLeaf(data []byte, off int, n int) int {
	sym.Assume(off+2+n <= len(data))
	sym.Assume(data[off] == 0x58 && data[off+1] == byte(n))
	Tie(data, off, n+2)
	return n + 2
}
