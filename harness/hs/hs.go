// Package hs: handshake negotiation (C18 responder side, C19 initiator side).
package hs

import (
	"net"

	"verifharness/sym"

	"github.com/blinklabs-io/gouroboros/cbor"
	"github.com/blinklabs-io/gouroboros/connection"
	"github.com/blinklabs-io/gouroboros/protocol"
	"github.com/blinklabs-io/gouroboros/protocol/handshake"
)

var Registry = map[string]func(){
	"Responder":  Responder,
	"Initiator":  Initiator,
	"Refusal":    Refusal,
	"QueryReply": QueryReply,
}

type addr struct{}

func (addr) Network() string { return "stub" }
func (addr) String() string  { return "stub" }

func connId() connection.ConnectionId {
	return connection.ConnectionId{LocalAddr: net.Addr(addr{}), RemoteAddr: net.Addr(addr{})}
}

// version universes (node-to-node / node-to-client), including one value outside the tables
var universe = [2][]uint16{{13, 14, 99, 7, 11}, {0x8009, 0x8010, 0x8063, 0x800f}}

// versionData builds the version data value the given version uses on the wire.
func versionData(v uint16, magic uint32, query bool) protocol.VersionData {
	mode := protocol.ProtocolModeNodeToNode
	if v >= protocol.ProtocolVersionNtCOffset {
		mode = protocol.ProtocolModeNodeToClient
	}
	m := protocol.GetProtocolVersionMap(mode, magic, false, false, query)
	if d, ok := m[v]; ok {
		return d
	}
	return protocol.VersionDataNtN13andUp{VersionDataNtN11to12: protocol.VersionDataNtN11to12{CborNetworkMagic: magic, CborQuery: query}}
}

// encode returns wire bytes for v's version data and tells the CBOR contract what they decode to
// (nothing, when broken is set: natively a text string, which no version data decodes from).
func encode(d protocol.VersionData, broken bool) cbor.RawMessage {
	if broken {
		b := []byte{0x61, 0x61}
		if sym.Symbolic() {
			cbor.VerifDepositFor(b, nil)
		}
		return b
	}
	b, err := cbor.Encode(d)
	sym.Assume(err == nil)
	if sym.Symbolic() {
		cbor.VerifDepositFor(b, d)
	}
	return b
}

type outcome struct {
	finished bool
	version  uint16
	data     protocol.VersionData
}

// Responder (C18): the responder accepts the highest version offered by both sides whose magic
// matches, otherwise refuses; a version-mismatch refusal lists its versions ascending; query
// mode replies with the table and selects nothing; every path sends exactly one reply.
func Responder() {
	u := universe[sym.Param("table")]
	if n := sym.Param("n"); n < len(u) {
		u = u[:n]
	}
	rot := sym.Param("rotation")
	serverMagic := sym.U32("server_magic")
	serverMap := protocol.ProtocolVersionMap{}
	proposal := map[uint16]cbor.RawMessage{}
	inServer, inProposal := map[uint16]bool{}, map[uint16]bool{}
	pMagic, pQuery, pBroken := map[uint16]uint32{}, map[uint16]bool{}, map[uint16]bool{}
	for i := range u {
		v := u[(i+rot)%len(u)]
		name := string(rune('a' + (i+rot)%len(u)))
		if sym.Bool("server_has_"+name) && v != 99 && v != 0x8063 {
			serverMap[v] = versionData(v, serverMagic, false)
			inServer[v] = true
		}
		if sym.Bool("proposed_" + name) {
			pMagic[v], pQuery[v], pBroken[v] = sym.U32("magic_"+name), sym.Bool("query_"+name), sym.Bool("broken_"+name)
			proposal[v] = encode(versionData(v, pMagic[v], pQuery[v]), pBroken[v])
			inProposal[v] = true
		}
	}
	var out outcome
	cfg := handshake.NewConfig(handshake.WithProtocolVersionMap(serverMap),
		handshake.WithFinishedFunc(func(_ handshake.CallbackContext, v uint16, d protocol.VersionData) error {
			out = outcome{true, v, d}
			return nil
		}))
	s := handshake.VerifNewServer(&cfg, connId())
	msg := &handshake.MsgProposeVersions{VersionMap: proposal}
	msg.MessageType = handshake.MessageTypeProposeVersions
	err := handshake.VerifServerHandle(s, msg)
	sent := protocol.VerifDrainSent(s.Protocol)

	// reference
	known := func(v uint16) bool { return protocol.GetProtocolVersion(v).NewVersionDataFromCborFunc != nil }
	anyQuery := false
	best, haveBest := uint16(0), false
	for _, v := range u {
		if inProposal[v] && known(v) && !pBroken[v] && versionData(v, pMagic[v], pQuery[v]).Query() {
			anyQuery = true
		}
		if inProposal[v] && inServer[v] && (!haveBest || v > best) {
			best, haveBest = v, true
		}
	}
	sym.Reach("handled")
	sym.Assert(len(sent) == 1, "the responder sends exactly one reply")
	reply := sent[0]
	switch {
	case anyQuery:
		sym.Reach("query")
		sym.Assert(reply.Type() == handshake.MessageTypeQueryReply, "a query-mode proposal is answered with the version table")
		sym.Assert(!out.finished, "query mode selects no version")
		sym.Assert(len(reply.(*handshake.MsgQueryReply).VersionMap) == len(serverMap), "the query reply carries the responder's whole table")
	case !haveBest:
		sym.Reach("mismatch")
		sym.Assert(reply.Type() == handshake.MessageTypeRefuse && !out.finished && err != nil, "no common version is refused")
		reason := reply.(*handshake.MsgRefuse).Reason
		sym.Assert(len(reason) == 2 && reason[0].(uint64) == handshake.RefuseReasonVersionMismatch, "the refusal is a version mismatch")
		list := reason[1].([]uint16)
		sym.Assert(len(list) == len(serverMap), "the refusal lists all of the responder's versions")
		for i := range list {
			sym.Assert(inServer[list[i]], "the refusal lists only the responder's versions")
			if i > 0 {
				sym.Assert(list[i-1] < list[i], "the refusal lists versions in ascending order")
			}
		}
	case pBroken[best] || pMagic[best] != serverMagic:
		sym.Reach("refused")
		sym.Assert(reply.Type() == handshake.MessageTypeRefuse && !out.finished && err != nil, "undecodable data or a wrong magic for the best common version is refused")
	default:
		sym.Reach("accepted")
		sym.Assert(reply.Type() == handshake.MessageTypeAcceptVersion, "the best common version is accepted")
		sym.Assert(reply.(*handshake.MsgAcceptVersion).Version == best, "the accepted version is the highest version offered by both sides")
		sym.Assert(out.finished && out.version == best, "the responder finishes with that version")
		sym.Assert(out.data != nil && out.data.NetworkMagic() == serverMagic, "the responder finishes with the initiator's data, whose magic matches")
	}
}

// Initiator (C19): the initiator completes only with a version it proposed, whose data
// decodes for that version and carries its own magic.
func Initiator() {
	u := universe[sym.Param("table")]
	clientMagic := sym.U32("client_magic")
	clientMap := protocol.ProtocolVersionMap{}
	proposed := map[uint16]bool{}
	for i, v := range u {
		if sym.Bool("proposed_"+string(rune('a'+i))) && v != 99 && v != 0x8063 {
			clientMap[v] = versionData(v, clientMagic, false)
			proposed[v] = true
		}
	}
	var out outcome
	cfg := handshake.NewConfig(handshake.WithProtocolVersionMap(clientMap),
		handshake.WithFinishedFunc(func(_ handshake.CallbackContext, v uint16, d protocol.VersionData) error {
			out = outcome{true, v, d}
			return nil
		}))
	c := handshake.VerifNewClient(&cfg, connId())
	// the peer's acceptance: any version of the universe, any magic, decodable or not
	k := sym.U8("accepted_index")
	sym.Assume(int(k) < len(u))
	var accepted uint16
	for i, v := range u {
		if int(k) == i {
			accepted = v
		}
	}
	peerMagic, broken := sym.U32("peer_magic"), sym.Bool("broken")
	msg := &handshake.MsgAcceptVersion{Version: accepted, VersionData: encode(versionData(accepted, peerMagic, false), broken)}
	msg.MessageType = handshake.MessageTypeAcceptVersion
	err := handshake.VerifClientHandle(c, msg)
	sym.ObsBool("finished", out.finished)
	sym.Reach("handled")
	if out.finished {
		sym.Reach("finished")
		sym.Assert(err == nil, "a finished handshake reports no error")
		sym.Assert(proposed[out.version] && out.version == accepted, "the initiator completes only with a version it proposed")
		sym.Assert(!broken && out.data != nil, "the accepted version data decodes for that version")
		sym.Assert(out.data.NetworkMagic() == clientMagic, "the accepted version data carries the initiator's own network magic")
	} else {
		sym.Assert(err != nil, "any other acceptance is a handshake failure")
	}
	if proposed[accepted] && !broken && peerMagic == clientMagic {
		sym.Assert(out.finished, "a proper acceptance completes the handshake")
	}
}

// Refusal: the initiator reports a refusal as an error and never completes.
func Refusal() {
	var out outcome
	cfg := handshake.NewConfig(handshake.WithProtocolVersionMap(protocol.ProtocolVersionMap{13: versionData(13, 1, false)}),
		handshake.WithFinishedFunc(func(_ handshake.CallbackContext, v uint16, d protocol.VersionData) error {
			out = outcome{true, v, d}
			return nil
		}))
	c := handshake.VerifNewClient(&cfg, connId())
	var reason []any
	switch sym.Param("reason") {
	case 0:
		reason = []any{handshake.RefuseReasonVersionMismatch, []any{uint64(sym.U16("v0")), uint64(sym.U16("v1"))}}
	case 1:
		reason = []any{handshake.RefuseReasonDecodeError, uint64(sym.U16("v0")), "decode"}
	case 2:
		reason = []any{handshake.RefuseReasonRefused, uint64(sym.U16("v0")), "refused"}
	default:
		reason = []any{sym.U64("code")}
	}
	msg := handshake.NewMsgRefuse(reason)
	err := handshake.VerifClientHandle(c, msg)
	sym.Reach("handled")
	sym.Assert(err != nil && !out.finished, "a refusal is reported as an error and completes nothing")
}

// QueryReply: a query reply hands the responder's table to the caller and selects no version.
func QueryReply() {
	var out outcome
	var got protocol.ProtocolVersionMap
	cfg := handshake.NewConfig(handshake.WithProtocolVersionMap(protocol.ProtocolVersionMap{13: versionData(13, 1, true)}),
		handshake.WithFinishedFunc(func(_ handshake.CallbackContext, v uint16, d protocol.VersionData) error {
			out = outcome{true, v, d}
			return nil
		}),
		handshake.WithQueryReplyFunc(func(_ handshake.CallbackContext, m protocol.ProtocolVersionMap) error {
			got = m
			return nil
		}))
	c := handshake.VerifNewClient(&cfg, connId())
	magic := sym.U32("magic")
	table := map[uint16]cbor.RawMessage{13: encode(versionData(13, magic, false), false), 14: encode(versionData(14, magic, false), sym.Bool("broken"))}
	msg := &handshake.MsgQueryReply{VersionMap: table}
	msg.MessageType = handshake.MessageTypeQueryReply
	err := handshake.VerifClientHandle(c, msg)
	sym.Reach("handled")
	sym.Assert(err == nil, "a query reply is not an error")
	sym.Assert(out.finished && out.version == 0 && out.data == nil, "a query reply selects no version")
	d, ok := got[13]
	sym.Assert(ok && d.NetworkMagic() == magic, "the query reply's decodable entries reach the caller")
}
