// Package pipe: the block pipeline (C42 apply order, C43 drain accounting, C44 failed
// submissions). One goroutine body is executed at a time against a scripted environment.
package pipe

import (
	"context"
	"errors"
	"time"

	"verifharness/sym"

	"github.com/blinklabs-io/gouroboros/pipeline"
	pcommon "github.com/blinklabs-io/gouroboros/protocol/common"
)

var Registry = map[string]func(){
	"ApplyOrder":       ApplyOrder,
	"DrainDecode":      DrainDecode,
	"DrainApply":       DrainApply,
	"FailedSubmit":     FailedSubmit,
	"ConcurrentSubmit": ConcurrentSubmit,
	"DrainOverflow":    DrainOverflow,
}

// ConcurrentSubmit (C44): the pipeline is full; two callers block in Submit at the same time
// (cooperatively scheduled, either order); one of them gives up (its context is cancelled),
// then a worker makes room and the other goes through; a later submission succeeds as well.
// Every block whose Submit returned nil is applied once the stages run: a caller that gave
// up must not leave a gap in the sequence numbers.
func ConcurrentSubmit() {
	live := mkCtx(false)
	p := pipeline.VerifNewStartedPipeline(1, live, nil)
	applied := map[uint]bool{}
	stage := pipeline.NewApplyStage(func(it *pipeline.BlockItem) error {
		applied[it.BlockType()] = true
		return nil
	}, 0)
	ch := pipeline.VerifSubmitChan(p)
	sym.Assume(p.Submit(mkCtx(false), 10, nil, pcommon.Tip{}) == nil) // fills the pipeline
	ctxA, ctxB := mkCtx(false), mkCtx(false)
	var errA, errB error
	doneA, doneB := false, false
	a := func() { errA = p.Submit(ctxA, 11, nil, pcommon.Tip{}); doneA = true }
	b := func() { errB = p.Submit(ctxB, 12, nil, pcommon.Tip{}); doneB = true }
	firstGivesUp := sym.Bool("first_caller_gives_up")
	var delivered []*pipeline.BlockItem
	step := 0
	env := func() bool {
		step++
		if step == 1 {
			if firstGivesUp {
				close(ctxA.done)
			} else {
				close(ctxB.done)
			}
			return true
		}
		if len(ch) > 0 { // a decode worker takes the queued block
			delivered = append(delivered, <-ch)
			return true
		}
		return false
	}
	if sym.Param("order") == 0 {
		sym.RunGoroutines(env, a, b)
	} else {
		sym.RunGoroutines(env, b, a)
	}
	sym.Reach("ran")
	sym.Assert(doneA && doneB, "both callers return")
	if firstGivesUp {
		sym.Assert(errA != nil && errB == nil, "the caller whose context was cancelled fails, the other succeeds")
	} else {
		sym.Assert(errB != nil && errA == nil, "the caller whose context was cancelled fails, the other succeeds")
	}
	for len(ch) > 0 {
		delivered = append(delivered, <-ch)
	}
	sym.Assert(p.Submit(mkCtx(false), 13, nil, pcommon.Tip{}) == nil, "a later submission succeeds")
	for len(ch) > 0 {
		delivered = append(delivered, <-ch)
	}
	for _, it := range delivered {
		_, _ = stage.ProcessWithStatus(live, it)
	}
	survivor := uint(12)
	if !firstGivesUp {
		survivor = 11
	}
	sym.Assert(applied[10] && applied[survivor] && applied[13], "every successfully submitted block is applied although a blocked caller gave up in between")
}

// DrainOverflow (C43): three blocks reach an apply stage with a reorder buffer of one in the
// order 2, 1, 0, so the buffer overflows (the runner reports the back-pressure error); the
// real apply runner processes them all. Afterwards nothing is pending; a fourth block that
// is submitted and still queued is counted as pending (an overflow must not make the
// in-flight count drift).
func DrainOverflow() {
	live := mkCtx(false)
	p := pipeline.VerifNewStartedPipeline(4, live, nil)
	pipeline.VerifSetMaxPending(p, func(*pipeline.BlockItem) error { return nil }, 1)
	for _, seq := range []uint64{2, 1, 0} {
		pipeline.VerifInject(p, pipeline.NewBlockItem(0, nil, pcommon.Tip{}, seq))
	}
	sym.Assert(p.PendingCount() == 3, "three blocks in flight")
	close(pipeline.VerifDecodedChan(p))
	pipeline.VerifApplyRunner(p, live)
	sym.Reach("ran")
	sym.Assert(p.PendingCount() == 0, "once every block has left the apply stage nothing is pending")
	sym.Assume(p.Submit(mkCtx(false), 0, nil, pcommon.Tip{}) == nil)
	sym.Assert(p.PendingCount() == 1, "a block submitted after a buffer overflow is counted as pending")
}

// a context whose Done channel the harness controls
type stubCtx struct{ done chan struct{} }

func (c stubCtx) Deadline() (time.Time, bool) { return time.Time{}, false }
func (c stubCtx) Done() <-chan struct{}       { return c.done }
func (c stubCtx) Err() error {
	select {
	case <-c.done:
		return context.Canceled
	default:
		return nil
	}
}
func (c stubCtx) Value(any) any { return nil }

func mkCtx(expired bool) stubCtx {
	ch := make(chan struct{})
	if expired {
		close(ch)
	}
	return stubCtx{ch}
}

var errDecode = errors.New("decode failed")

// ApplyOrder (C42): for every arrival order of K items at the apply stage and every
// good/failed marking, the apply function is called for exactly the good items, once each,
// in increasing sequence order, and every item comes out of the stage exactly once.
func ApplyOrder() {
	k := sym.Param("items")
	var applied []uint64
	stage := pipeline.NewApplyStage(func(it *pipeline.BlockItem) error {
		applied = append(applied, it.SequenceNumber())
		return nil
	}, 0)
	live := mkCtx(false)
	// a symbolic permutation of 0..k-1: arrival position -> sequence number
	seqs := make([]uint64, k)
	for i := 0; i < k; i++ {
		s := sym.U8("arrival" + string(rune('0'+i)))
		sym.Assume(int(s) < k)
		for j := 0; j < i; j++ {
			sym.Assume(uint64(s) != seqs[j])
		}
		for c := 0; c < k; c++ { // make the value concrete on each path
			if int(s) == c {
				seqs[i] = uint64(c)
			}
		}
	}
	good := make([]bool, k) // indexed by sequence number
	out := make([]int, k)   // how often each sequence number came out of the stage
	for i := 0; i < k; i++ {
		it := pipeline.NewBlockItem(0, nil, pcommon.Tip{}, seqs[i])
		good[seqs[i]] = sym.Bool("good" + string(rune('0'+i)))
		if !good[seqs[i]] {
			it.SetDecodeError(errDecode, 0)
		}
		processed, err := stage.ProcessWithStatus(live, it)
		sym.Assert(err == nil, "the apply stage accepts every item")
		for _, p := range processed {
			out[p.SequenceNumber()]++
		}
	}
	sym.Reach("decided")
	want := 0
	for s := 0; s < k; s++ {
		sym.Assert(out[s] == 1, "every item leaves the apply stage exactly once")
		if good[s] {
			want++
		}
	}
	sym.Assert(len(applied) == want, "exactly the good items are applied, each once")
	for i := 1; i < len(applied); i++ {
		sym.Assert(applied[i-1] < applied[i], "items are applied in submission order")
	}
	for _, s := range applied {
		sym.Assert(good[s], "a failed item is never applied")
	}
}

// observing stage: records PendingCount while the worker holds the item
type probeStage struct {
	p    *pipeline.BlockPipeline
	seen *int
}

func (s probeStage) Name() string { return "probe" }
func (s probeStage) Process(ctx context.Context, it *pipeline.BlockItem) error {
	*s.seen = s.p.PendingCount()
	return nil
}

// DrainDecode (C43): while a decode worker holds a submitted block (taken from the submit
// channel, not yet forwarded) the pipeline still counts it as pending, so WaitForDrain cannot
// return. The worker body runs until its input channel is closed.
func DrainDecode() {
	live := mkCtx(false)
	p := pipeline.VerifNewStartedPipeline(2, live, nil)
	sym.Assume(p.Submit(mkCtx(false), 0, nil, pcommon.Tip{}) == nil)
	sym.Assert(p.PendingCount() >= 1, "a queued block is counted as pending")
	close(pipeline.VerifSubmitChan(p))
	seen := -1
	pipeline.VerifDecodeWorker(p, probeStage{p, &seen}, live)
	sym.Reach("probed")
	sym.ObsInt("pending_while_held", seen)
	sym.Assert(seen >= 1, "a block held by a decode worker is counted as pending")
	sym.Assert(p.PendingCount() >= 1, "a block queued for the apply stage is counted as pending")
}

// DrainApply (C43): two blocks are submitted (a third submission fails under back-pressure);
// while the apply function runs for the k-th block, at least the blocks not yet finished are
// counted as pending, and once both have left the apply stage nothing is.
func DrainApply() {
	live := mkCtx(false)
	var seen []int
	var p *pipeline.BlockPipeline
	p = pipeline.VerifNewStartedPipeline(2, live, func(it *pipeline.BlockItem) error {
		seen = append(seen, p.PendingCount())
		return nil
	})
	sym.Assume(p.Submit(mkCtx(false), 0, nil, pcommon.Tip{}) == nil)
	sym.Assume(p.Submit(mkCtx(false), 0, nil, pcommon.Tip{}) == nil)
	sym.Assert(p.Submit(mkCtx(true), 0, nil, pcommon.Tip{}) != nil, "a submission whose context expired under back-pressure fails")
	sym.Assert(p.PendingCount() == 2, "two accepted blocks are pending, the failed submission is not")
	close(pipeline.VerifSubmitChan(p))
	other := -1
	pipeline.VerifDecodeWorker(p, probeStage{p, &other}, live)
	close(pipeline.VerifDecodedChan(p))
	pipeline.VerifApplyRunner(p, live)
	sym.Reach("probed")
	sym.Assert(len(seen) == 2 && seen[0] >= 2 && seen[1] >= 1, "blocks not yet finished are counted as pending while earlier ones are applied")
	sym.Assert(p.PendingCount() == 0, "once every submitted block has left the apply stage nothing is pending")
}

// FailedSubmit (C44): submissions whose context expires while the pipeline is full fail; the
// blocks submitted successfully before and after them are all applied once the stages run.
func FailedSubmit() {
	k := sym.Param("submissions")
	live := mkCtx(false)
	applied := make([]bool, k)
	var seqOf []int // sequence number -> submission index
	p := pipeline.VerifNewStartedPipeline(1, live, nil)
	stage := pipeline.NewApplyStage(func(it *pipeline.BlockItem) error {
		applied[seqOf[it.SequenceNumber()]] = true
		return nil
	}, 0)
	ch := pipeline.VerifSubmitChan(p)
	ok := make([]bool, k)
	var delivered []*pipeline.BlockItem
	for i := 0; i < k; i++ {
		name := string(rune('0' + i))
		// the caller's context may have expired already, whether or not the pipeline is full
		// (a live context on a full pipeline would just block: excluded). With an expired
		// context and room in the pipeline Submit may go either way.
		expired := sym.Bool("ctx_expired" + name)
		full := len(ch) == cap(ch)
		sym.Assume(expired || !full)
		err := p.Submit(mkCtx(expired), uint(i), nil, pcommon.Tip{})
		ok[i] = err == nil
		sym.Assert(expired || ok[i], "a submission with a live context and room in the pipeline succeeds")
		sym.Assert(!(expired && full) || !ok[i], "a submission whose context expired under back-pressure fails")
		// environment: a decode worker may take the queued block now or later
		if sym.Bool("worker_runs_after" + name) {
			for len(ch) > 0 {
				delivered = append(delivered, <-ch)
			}
		}
	}
	for len(ch) > 0 {
		delivered = append(delivered, <-ch)
	}
	// successful submissions are numbered in call order
	seqOf = make([]int, 2*k)
	for _, it := range delivered {
		seqOf[it.SequenceNumber()] = int(it.BlockType())
	}
	for _, it := range delivered {
		_, _ = stage.ProcessWithStatus(live, it)
	}
	sym.Reach("decided")
	for i := 0; i < k; i++ {
		if ok[i] {
			sym.Reach("some-submitted")
			sym.Assert(applied[i], "a successfully submitted block is applied even after earlier submissions failed")
		}
	}
}
