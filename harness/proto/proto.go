// Package proto: the protocol engine's goroutine bodies, one at a time against a scripted
// environment (C11 receive gating, C14 state timeouts, and the contract used for
// transitionState in sequential mode).
package proto

import (
	"errors"
	"time"

	"verifharness/sym"

	"github.com/blinklabs-io/gouroboros/protocol"
)

var Registry = map[string]func(){
	"RecvGate":  RecvGate,
	"StateStep": StateStep,
	"Timeouts":  Timeouts,
}

// a three-state protocol: S0 (server agency) --1--> S1 (client agency) --2--> S2 (server
// agency) --3--> Done (nobody); S0 --5--> S2 keeps the agency with the server (so a message can
// follow another from the same side), S1 --4--> S1 is a self-loop, S2 --6--> S0 leads back to the
// initial state
func refNext(cur protocol.State, t uint8) (protocol.State, bool) {
	switch {
	case cur == s0 && t == 1:
		return s1, true
	case cur == s0 && t == 5:
		return s2, true
	case cur == s1 && t == 2:
		return s2, true
	case cur == s1 && t == 4:
		return s1, true
	case cur == s2 && t == 3:
		return done, true
	case cur == s2 && t == 6:
		return s0, true
	}
	return cur, false
}

var (
	s0   = protocol.NewState(1, "S0")
	s1   = protocol.NewState(2, "S1")
	s2   = protocol.NewState(3, "S2")
	done = protocol.NewState(4, "Done")
)

// probe1, when set, is S1's TimeoutFunc (consulted every time a timer is armed for S1)
var probe1 func() time.Duration

func stateMap(t1, t2 time.Duration, probe func() time.Duration) protocol.StateMap {
	return protocol.StateMap{
		s0:   {Agency: protocol.AgencyServer, Timeout: t1, Transitions: []protocol.StateTransition{{MsgType: 1, NewState: s1}, {MsgType: 5, NewState: s2}}},
		s1:   {Agency: protocol.AgencyClient, Timeout: t1, TimeoutFunc: probe1, Transitions: []protocol.StateTransition{{MsgType: 2, NewState: s2}, {MsgType: 4, NewState: s1}}},
		s2:   {Agency: protocol.AgencyServer, Timeout: t2, TimeoutFunc: probe, Transitions: []protocol.StateTransition{{MsgType: 3, NewState: done}, {MsgType: 6, NewState: s0}}},
		done: {Agency: protocol.AgencyNone},
	}
}

func msg(t uint8) protocol.Message { return &protocol.MessageBase{MessageType: t} }

func role(server bool) protocol.ProtocolRole {
	if server {
		return protocol.ProtocolRoleServer
	}
	return protocol.ProtocolRoleClient
}

func peerHasAgency(server bool, s protocol.State) bool {
	switch s {
	case s0, s2:
		return !server // server agency: the client is the receiver
	case s1:
		return server
	}
	return false
}

var errHandler = errors.New("handler failed")

// RecvGate (C11): two messages with symbolic types are queued by the peer. The application
// handler is invoked for a message only if the peer held agency (a receive token was there)
// and the message type is permitted in the current state; the first message that is not
// makes the protocol report one error and stop, and nothing after it reaches the handler.
func RecvGate() {
	server := sym.Bool("we_are_server")
	start := s0
	if sym.Bool("start_in_s1") {
		start = s1
	}
	var handled []uint8
	failFirst := sym.Bool("handler_fails")
	p := protocol.VerifLoopProtocol(protocol.ProtocolConfig{Name: "t", Role: role(server), StateMap: stateMap(0, 0, nil), InitialState: start,
		MessageHandlerFunc: func(m protocol.Message) error {
			handled = append(handled, m.Type())
			if failFirst && len(handled) == 1 {
				return errHandler
			}
			return nil
		}})
	sym.RunUntilBlocked(protocol.VerifStateLoopBody(p)) // initial state and its ready token
	t1, t2 := sym.U8("type1"), sym.U8("type2")
	sym.Assume(t1 <= 6 && t2 <= 6)
	protocol.VerifQueueRecv(p, msg(t1))
	protocol.VerifQueueRecv(p, msg(t2))
	blocked := sym.RunUntilBlocked(func() { protocol.VerifRecvLoop(p) })
	errs := protocol.VerifDrainErrors(p)
	sym.Reach("ran")

	// reference: replay the conversation on the specification of the little protocol
	cur := start
	var want []uint8
	failed := false
	for i, t := range []uint8{t1, t2} {
		if failed || !peerHasAgency(server, cur) {
			break
		}
		next, ok := refNext(cur, t)
		if !ok {
			failed = true
			break
		}
		want = append(want, t)
		cur = next
		if failFirst && i == 0 {
			failed = true
		}
	}
	sym.Assert(len(handled) == len(want), "the handler runs exactly for the messages the peer was allowed to send, up to the first error")
	for i := range want {
		if i < len(handled) {
			sym.Assert(handled[i] == want[i], "handled messages are the permitted ones, in order")
		}
	}
	if failed {
		sym.Reach("error")
		sym.Assert(len(errs) == 1 && protocol.VerifStopped(p) && !blocked, "the first offending message makes the protocol report one error and stop")
	} else {
		sym.Assert(len(errs) == 0 && !protocol.VerifStopped(p), "a conforming conversation reports no error")
	}
}

// StateStep: the real stateLoop, for one or two transition requests: a permitted message sets
// the state and grants the ready token its agency calls for (send token when we hold agency,
// receive token when the peer does, none in the terminal state); a message that is not
// permitted answers the requester with an error and changes nothing. This is the behaviour
// the sequential-mode contract of transitionState assumes.
func StateStep() {
	server := sym.Bool("we_are_server")
	start := s0
	if sym.Bool("start_in_s1") {
		start = s1
	}
	p := protocol.VerifLoopProtocol(protocol.ProtocolConfig{Name: "t", Role: role(server), StateMap: stateMap(0, 0, nil), InitialState: start})
	t1, t2 := sym.U8("type1"), sym.U8("type2")
	sym.Assume(t1 <= 6 && t2 <= 6)
	run, results := protocol.VerifRunStateLoop(p, []protocol.Message{msg(t1), msg(t2)})
	blocked := sym.RunUntilBlocked(run)
	sym.Reach("ran")
	sym.Assert(blocked, "the state loop keeps serving (it does not exit on a rejected transition)")
	// reference
	cur := start
	for i, t := range []uint8{t1, t2} {
		next, ok := refNext(cur, t)
		sym.Assert(len(results[i]) == 1, "every transition request is answered")
		err := <-results[i]
		sym.Assert((err == nil) == ok, "a transition is accepted iff the message is permitted in the current state")
		cur = next
	}
	sym.Assert(protocol.VerifState(p) == cur, "the state is the result of the accepted transitions")
	// tokens: both channels have capacity 1 and nothing consumed them here
	sendExpected := (cur == s1 && !server) || ((cur == s0 || cur == s2) && server)
	recvExpected := (cur == s1 && server) || ((cur == s0 || cur == s2) && !server)
	if cur == done {
		sym.Reach("terminal")
	}
	// a token granted for an earlier state stays (capacity one, never taken back); the final
	// state's token must be there
	if sendExpected {
		sym.Assert(protocol.VerifSendTokens(p) == 1, "holding agency grants the send token")
	}
	if recvExpected {
		sym.Assert(protocol.VerifRecvTokens(p) == 1, "the peer holding agency grants the receive token")
	}
}

// Timeouts (C14): a state entered by a transition arms a timer iff it has a timeout; the
// initial state never does. If the agency holder stalls in a state with a timeout, a timeout
// error is reported and the protocol stops; in a state without a timeout, or in the initial
// state, no timeout error is ever reported; leaving a timed state disarms its timer.
func Timeouts() {
	scenario := sym.Param("scenario")
	long, short := 50*time.Millisecond, 5*time.Millisecond
	var p *protocol.Protocol
	errsAtS2 := -1
	probe := func() time.Duration {
		errsAtS2 = protocol.VerifErrorCount(p)
		return 0 // S2 has no timeout
	}
	probe1 = nil
	switch scenario {
	case 5: // S0 -> S2 -> S0: the initial state entered again by a transition is a state like any
		// other: its timeout is armed, and a stall there is reported and stops the protocol
		p = protocol.VerifLoopProtocol(protocol.ProtocolConfig{Name: "t", Role: role(false), StateMap: stateMap(short, 0, nil), InitialState: s0})
		run, res := protocol.VerifRunStateLoop(p, []protocol.Message{msg(5), msg(6)})
		blocked := sym.RunUntilBlocked(run)
		sym.Reach("ran")
		sym.Assert(len(res[0]) == 1 && len(res[1]) == 1, "both transitions are answered")
		sym.Assert(!blocked && protocol.VerifErrorCount(p) == 1 && protocol.VerifStopped(p), "a stall in the initial state re-entered by a transition is reported like in any timed state")
	case 4: // S0 -> S1 (timed), then three messages that stay in S1, each well within the limit:
		// every re-entry stops the running timer and arms a fresh one (the limit counts from
		// the holder's last move), so no timeout is reported while the conversation progresses
		armed := 0
		limit := 3 * time.Second
		probe1 = func() time.Duration { armed++; return limit }
		last, maxGap := time.Now(), time.Duration(0)
		p = protocol.VerifLoopProtocol(protocol.ProtocolConfig{Name: "t", Role: role(false), StateMap: stateMap(long, 0, nil), InitialState: s0})
		run, request, results := protocol.VerifStateLoopIO(p)
		sent := 0
		env := func() bool {
			if sent == 4 || protocol.VerifStopped(p) {
				return false
			}
			if !sym.Symbolic() && sent > 0 {
				time.Sleep(800 * time.Millisecond) // natively: progress every ~0.9 s, limit 3 s
			}
			if g := time.Since(last); g > maxGap && sent > 0 {
				maxGap = g
			}
			last = time.Now()
			t := uint8(4)
			if sent == 0 {
				t = 1
			}
			sent++
			request(msg(t))
			return true
		}
		sym.RunGoroutines(env, run)
		sym.Reach("ran")
		answered := 0
		for len(results) > 0 {
			if (<-results) == nil {
				answered++
			}
		}
		if answered == 4 {
			sym.Reach("self-loop")
			sym.Assert(armed == 4, "every entry into a timed state, re-entry included, arms a fresh timer for it")
		}
		if g := time.Since(last); g > maxGap {
			maxGap = g
		}
		if !sym.Symbolic() && maxGap < limit*6/10 {
			// (only judged when this run really kept every gap well inside the limit)
			sym.Assert(protocol.VerifErrorCount(p) == 0 && answered == 4, "no timeout is reported while the conversation progresses within the limit")
		}
		probe1 = nil
	case 0: // the initial state has a timeout configured, nothing happens: no timer, no error
		p = protocol.VerifLoopProtocol(protocol.ProtocolConfig{Name: "t", Role: role(false), StateMap: stateMap(short, 0, nil), InitialState: s0})
		run, _ := protocol.VerifRunStateLoop(p, nil)
		blocked := sym.RunUntilBlocked(run)
		sym.Reach("ran")
		sym.Assert(blocked && protocol.VerifErrorCount(p) == 0, "no timeout is reported in the initial state")
	case 1: // S0 -> S1 (timeout), then the peer stalls: timeout error, protocol stops
		p = protocol.VerifLoopProtocol(protocol.ProtocolConfig{Name: "t", Role: role(false), StateMap: stateMap(short, 0, nil), InitialState: s0})
		run, res := protocol.VerifRunStateLoop(p, []protocol.Message{msg(1)})
		blocked := sym.RunUntilBlocked(run)
		sym.Reach("ran")
		sym.Assert(len(res[0]) == 1, "the transition is answered")
		sym.Assert(!blocked && protocol.VerifErrorCount(p) == 1 && protocol.VerifStopped(p), "a stall in a state with a timeout is reported and stops the protocol")
	case 2: // S0 -> S1 (no timeout configured), stall: nothing is reported
		p = protocol.VerifLoopProtocol(protocol.ProtocolConfig{Name: "t", Role: role(false), StateMap: stateMap(0, 0, nil), InitialState: s0})
		run, _ := protocol.VerifRunStateLoop(p, []protocol.Message{msg(1)})
		blocked := sym.RunUntilBlocked(run)
		sym.Reach("ran")
		sym.Assert(blocked && protocol.VerifErrorCount(p) == 0, "no timeout is reported in a state without a timeout")
	default: // S0 -> S1 (timed) -> S2 (untimed), then a stall in S2: no timeout after S2 was entered
		p = protocol.VerifLoopProtocol(protocol.ProtocolConfig{Name: "t", Role: role(false), StateMap: stateMap(long, 0, probe), InitialState: s0})
		run, res := protocol.VerifRunStateLoop(p, []protocol.Message{msg(1), msg(2)})
		sym.RunUntilBlocked(run)
		sym.Reach("ran")
		if len(res[1]) == 1 && errsAtS2 >= 0 {
			sym.Reach("left-timed-state")
			sym.Assert(protocol.VerifErrorCount(p) == errsAtS2, "the timer of a state that was left never fires")
		}
	}
}
