package proto

import (
	"sync"

	"verifharness/sym"

	"github.com/blinklabs-io/gouroboros/muxer"
	"github.com/blinklabs-io/gouroboros/protocol"
)

func init() {
	Registry["RecvStream"] = RecvStream
	Registry["ReadBufferBound"] = ReadBufferBound
}

var (
	streaming = protocol.NewState(1, "Streaming")
	streamEnd = protocol.NewState(2, "Done")
)

// a streaming protocol seen from the client: Streaming (server agency, byte limit) --1-->
// Streaming, --3--> Done
func streamMap(limit int) protocol.StateMap {
	return protocol.StateMap{
		streaming: {Agency: protocol.AgencyServer, PendingMessageByteLimit: limit, Transitions: []protocol.StateTransition{
			{MsgType: 1, NewState: streaming}, {MsgType: 3, NewState: streamEnd}}},
		streamEnd: {Agency: protocol.AgencyNone},
	}
}

// frame builds the CBOR message [type, h'<n bytes>'] with symbolic marker bytes in the payload
func frame(t uint8, n int, tag string) []byte {
	b := []byte{0x82, t}
	switch {
	case n < 24:
		b = append(b, 0x40|byte(n))
	case n < 256:
		b = append(b, 0x58, byte(n))
	case n < 65536:
		b = append(b, 0x59, byte(n>>8), byte(n))
	default:
		b = append(b, 0x5a, byte(n>>24), byte(n>>16), byte(n>>8), byte(n))
	}
	pay := make([]byte, n)
	if n > 0 {
		pay[0] = sym.U8(tag + "_first")
		pay[n-1] = sym.U8(tag + "_last")
	}
	return append(b, pay...)
}

// admittedAll reports whether all n messages created and not yet started on have been
// admitted, i.e. sit in the receive queue (the last one may still be waiting for room)
func admittedAll(p *protocol.Protocol, n int) bool { return protocol.VerifRecvQueued(p) >= n }

func fromCbor(t uint, data []byte) (protocol.Message, error) {
	if t != 1 && t != 3 {
		return nil, nil
	}
	m := &protocol.MessageBase{MessageType: uint8(t)}
	m.SetCbor(data)
	return m, nil
}

// concretise turns a symbolic cut position in 0..n into a concrete one by case split
func concretise(v int, n int) int {
	for c := 0; c < n; c++ {
		if v == c {
			return c
		}
	}
	return n
}

// RecvStream (C13, receiving half of C10): the peer streams k messages; the byte stream is cut
// into segments at two arbitrary positions; the real readLoop and recvLoop run (cooperatively)
// against an environment that, whenever both are blocked or polling, either delivers the next
// segment or lets the application finish with one message (nondeterministic choice). Decided: the handler gets
// exactly the sent messages, same bytes, same order; in a state with a byte limit the
// unprocessed bytes never exceed it; a stream of messages that each fit is never answered with
// an error however slow the consumer is, and is delivered completely; a single message larger
// than the limit ends the protocol with an error and is never delivered.
func RecvStream() {
	k := sym.Param("msgs")
	limit := sym.Param("limit")
	sizes := []int{sym.Param("size1"), sym.Param("size2"), sym.Param("size3"), sym.Param("size4"), sym.Param("size5"), sym.Param("size6")}[:k]
	var mu sync.Mutex
	var handled []protocol.Message
	maxPending := 0
	// ghost account of what is really held: sizes of the messages the read loop has turned into
	// objects, in arrival order, and how many of them the application has started on
	var createdSizes []int
	started, maxHeld := 0, 0
	gate := make(chan struct{}, 8)
	var p *protocol.Protocol
	probe := func() {
		b, _ := protocol.VerifPendingRecv(p)
		if b > maxPending {
			maxPending = b
		}
	}
	p = protocol.VerifLoopProtocol(protocol.ProtocolConfig{Name: "t", Role: role(false), StateMap: streamMap(limit), InitialState: streaming,
		MessageFromCborFunc: func(t uint, data []byte) (protocol.Message, error) {
			mu.Lock()
			probe()
			// every message created before this one has been admitted by now; those the
			// application has not started on yet are held
			held := 0
			for _, n := range createdSizes[started:] {
				held += n
			}
			if held > maxHeld {
				maxHeld = held
			}
			createdSizes = append(createdSizes, len(data))
			mu.Unlock()
			return fromCbor(t, data)
		},
		MessageHandlerFunc: func(m protocol.Message) error {
			mu.Lock()
			started++ // the application has this message now ("the single message being processed")
			mu.Unlock()
			<-gate // a slow application: each message is held until the environment releases it
			mu.Lock()
			probe()
			handled = append(handled, m)
			mu.Unlock()
			return nil
		}})
	sym.RunUntilBlocked(protocol.VerifStateLoopBody(p))

	var stream []byte
	var sent [][]byte
	oversized := -1
	for i := 0; i < k; i++ {
		t := uint8(1)
		if i == k-1 && sym.Bool("ends_with_done") {
			t = 3
		}
		f := frame(t, sizes[i], "m"+string(rune('1'+i)))
		if limit > 0 && len(f) > limit && oversized < 0 {
			oversized = i
		}
		sent = append(sent, f)
		stream = append(stream, f...)
	}
	// two arbitrary cut positions -> up to three segments (empty pieces are not sent)
	// (streams longer than 64 bytes, and four-message streams, are only cut at the 65535-byte
	// segment limit)
	cut1, cut2 := 0, 0
	if len(stream) <= 64 && k <= 3 {
		c1, c2 := sym.Int("cut1"), sym.Int("cut2")
		sym.Assume(c1 >= 0 && c1 <= c2 && c2 <= len(stream))
		cut1 = concretise(c1, len(stream))
		cut2 = concretise(c2, len(stream))
	}
	var segs []*muxer.Segment
	for _, piece := range [][]byte{stream[:cut1], stream[cut1:cut2], stream[cut2:]} {
		for len(piece) > 0 {
			n := min(len(piece), muxer.SegmentMaxPayloadLength)
			segs = append(segs, muxer.NewSegment(0, piece[:n], true))
			piece = piece[n:]
		}
	}
	in := protocol.VerifSegmentsIn(p)
	fed, turns, released := 0, 0, 0
	env := func() bool {
		// everything is blocked: the peer delivers the next segment, or the application
		// finishes with one message (nondeterministic choice)
		turns++
		mu.Lock()
		held := 0
		for _, n := range createdSizes[started:] {
			held += n
		}
		// (the newest created message may still be waiting for admission: it is the one the
		// read loop itself holds, not counted against the limit)
		if len(createdSizes) > started && admittedAll(p, len(createdSizes)-started) == false {
			held -= createdSizes[len(createdSizes)-1]
		}
		if held > maxHeld {
			maxHeld = held
		}
		mu.Unlock()
		if protocol.VerifStopped(p) {
			return false
		}
		canFeed := fed < len(segs)
		canRelease := released < k
		if canFeed && (!canRelease || !sym.Bool("release_first_"+string(rune('0'+turns)))) {
			in <- segs[fed]
			fed++
			return true
		}
		if canRelease {
			gate <- struct{}{}
			released++
			return true
		}
		return false
	}
	sym.RunGoroutines(env, func() { protocol.VerifReadLoop(p) }, func() { protocol.VerifRecvLoop(p) })
	sym.Reach("ran")
	mu.Lock()
	defer mu.Unlock()
	sym.ObsInt("handled", len(handled))
	sym.ObsInt("errors", protocol.VerifErrorCount(p))
	if limit > 0 {
		sym.Assert(maxPending <= limit, "unprocessed received bytes never exceed the state's limit")
		sym.Assert(maxHeld <= limit, "the bytes of messages received and not yet started on never exceed the state's limit")
		b, _ := protocol.VerifPendingRecv(p)
		sym.Assert(b <= limit, "unprocessed received bytes never exceed the state's limit (end)")
	}
	if oversized >= 0 {
		sym.Reach("oversized")
		sym.Assert(protocol.VerifErrorCount(p) == 1 && protocol.VerifStopped(p), "a single message larger than the limit ends the protocol with an error")
		sym.Assert(len(handled) <= oversized, "the oversized message is never delivered")
	} else {
		sym.Assert(protocol.VerifErrorCount(p) == 0, "a stream of messages that fit is never answered with an error")
		sym.Assert(len(handled) == k, "every message is delivered, however slow the consumer (no deadlock)")
	}
	for i, m := range handled {
		c := m.Cbor()
		sym.Assert(len(c) == len(sent[i]), "messages arrive in order with their length")
		for j := range c {
			sym.Assert(c[j] == sent[i][j], "message bytes arrive unchanged")
		}
	}
	if fed >= 2 {
		sym.Reach("fragmented")
	}
}

// ReadBufferBound (C13): an endless incomplete message -- a head that promises 32 MiB, then
// zero bytes in full segments -- ends the protocol with an error as soon as the read buffer
// exceeds the 16 MiB bound, and nothing is delivered.
func ReadBufferBound() {
	handled := 0
	p := protocol.VerifLoopProtocol(protocol.ProtocolConfig{Name: "t", Role: role(false), StateMap: streamMap(0), InitialState: streaming,
		MessageFromCborFunc: fromCbor,
		MessageHandlerFunc:  func(m protocol.Message) error { handled++; return nil }})
	sym.RunUntilBlocked(protocol.VerifStateLoopBody(p))
	head := []byte{0x82, 0x01, 0x5a, 0x02, 0x00, 0x00, 0x00, sym.U8("first_payload_byte")}
	filler := make([]byte, muxer.SegmentMaxPayloadLength)
	in := protocol.VerifSegmentsIn(p)
	fedBytes, fed := 0, 0
	env := func() bool {
		if protocol.VerifStopped(p) {
			return false
		}
		if fedBytes > protocol.VerifMaxReadBufferSize+2*len(filler) {
			return len(in) > 0 // natively the loop may still be working through queued segments
		}
		pay := filler
		if fed == 0 {
			pay = head
		}
		in <- muxer.NewSegment(0, pay, true)
		fed++
		fedBytes += len(pay)
		return true
	}
	blocked := sym.RunWithEnv(func() { protocol.VerifReadLoop(p) }, env)
	sym.Reach("ran")
	sym.Assert(!blocked && protocol.VerifErrorCount(p) == 1 && protocol.VerifStopped(p), "an incomplete message that grows past the read-buffer bound ends the protocol with an error")
	sym.Assert(fedBytes > protocol.VerifMaxReadBufferSize, "no error before the buffer passes the bound")
	if sym.Symbolic() {
		// (natively the peer may have queued further segments before the loop got to the error)
		sym.Assert(fedBytes <= protocol.VerifMaxReadBufferSize+len(filler), "the error comes with the first segment that takes the buffer past the bound")
	}
	sym.Assert(handled == 0, "nothing is delivered")
}
