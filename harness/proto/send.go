package proto

import (
	"verifharness/sym"

	"github.com/blinklabs-io/gouroboros/muxer"
	"github.com/blinklabs-io/gouroboros/protocol"
)

func init() {
	Registry["SendOrder"] = SendOrder
	Registry["SendStream"] = SendStream
}

// SendStream (C12, C10): a server that keeps the agency streams three messages, queued one at
// a time (each only once the send loop is waiting again, so every message is a batch of its
// own) while the muxer has not yet taken any segment off the channel. At the end the segments
// still carry the queued messages' bytes, in order: a later batch must not disturb a segment
// handed over earlier.
func SendStream() {
	sizes := []int{sym.Param("size1"), sym.Param("size2"), sym.Param("size3")}
	p := protocol.VerifLoopProtocol(protocol.ProtocolConfig{Name: "t", Role: role(true), StateMap: streamMap(0), InitialState: streaming})
	sym.RunUntilBlocked(protocol.VerifStateLoopBody(p))
	var msgs []protocol.Message
	env := func() bool {
		if len(msgs) == len(sizes) || protocol.VerifStopped(p) {
			return false
		}
		m := sized(1, sizes[len(msgs)], "s"+string(rune('1'+len(msgs))))
		msgs = append(msgs, m)
		return p.SendMessage(m) == nil
	}
	sym.RunWithEnv(func() { protocol.VerifSendLoop(p) }, env)
	sym.Reach("ran")
	sym.Assert(len(msgs) == len(sizes) && protocol.VerifErrorCount(p) == 0, "streaming raises no error")
	out := protocol.VerifSegmentsOut(p)
	var wire []byte
	for len(out) > 0 {
		seg := <-out
		wire = append(wire, seg.Payload...)
	}
	total := 0
	for _, m := range msgs {
		total += len(m.Cbor())
	}
	sym.Assert(len(wire) == total, "exactly the queued bytes are written")
	off := 0
	for _, m := range msgs {
		c := m.Cbor()
		n := len(c)
		sym.Assert(wire[off] == c[0] && wire[off+n-1] == c[n-1] && wire[off+n/2] == c[n/2], "a segment handed to the muxer keeps its bytes while later batches are built")
		off += n
	}
}

var (
	idle = protocol.NewState(1, "Idle")
	busy = protocol.NewState(2, "Busy")
	fin  = protocol.NewState(3, "Done")
)

// request/response protocol with pipelining: Idle (client) --1 Req--> Busy (server)
// --2 Resp--> Idle; Idle --3 Done--> Done
func reqRespMap(probe protocol.StateTransitionMatchFunc) protocol.StateMap {
	return protocol.StateMap{
		idle: {Agency: protocol.AgencyClient, Transitions: []protocol.StateTransition{
			{MsgType: 1, NewState: busy, MatchFunc: probe}, {MsgType: 3, NewState: fin, MatchFunc: probe}}},
		busy: {Agency: protocol.AgencyServer, Transitions: []protocol.StateTransition{{MsgType: 2, NewState: idle, MatchFunc: probe}}},
		fin:  {Agency: protocol.AgencyNone},
	}
}

func sized(t uint8, n int, tag string) protocol.Message {
	m := &protocol.MessageBase{MessageType: t}
	b := make([]byte, n)
	// symbolic marker bytes at both ends and around the segment boundary positions
	b[0] = sym.U8(tag + "_first")
	b[n-1] = sym.U8(tag + "_last")
	if n > 3 {
		b[n/2] = sym.U8(tag + "_mid")
	}
	m.SetCbor(b)
	return m
}

// SendOrder (C12, sending half of C10): a client queues k messages (pipelined requests, an
// optional final Done; the first may be a message that is not permitted), then the real
// sendLoop runs against an environment that answers each outstanding request when the loop
// would otherwise block. The bytes handed to the muxer are the queued messages' bytes, in queue
// order, each exactly once, in segments of 1..65535 bytes; every sent message advances the
// local state exactly once, in queue order,; a
// first message that is not permitted is reported and nothing is written.
func SendOrder() {
	k := sym.Param("msgs")
	sizes := []int{sym.Param("size1"), sym.Param("size2"), sym.Param("size3")}
	var p *protocol.Protocol
	var trans []uint8
	probe := func(_ any, m protocol.Message) bool {
		trans = append(trans, m.Type())
		return true
	}
	p = protocol.VerifLoopProtocol(protocol.ProtocolConfig{Name: "t", Role: role(false), StateMap: reqRespMap(probe), InitialState: idle})
	sym.RunUntilBlocked(protocol.VerifStateLoopBody(p))

	firstBad := sym.Bool("first_not_permitted")
	withDone := sym.Bool("ends_with_done")
	var msgs []protocol.Message
	for i := 0; i < k; i++ {
		t := uint8(1)
		if i == 0 && firstBad {
			t = 2
		} else if i == k-1 && withDone {
			t = 3
		}
		m := sized(t, sizes[i], "m"+string(rune('1'+i)))
		msgs = append(msgs, m)
		sym.Assert(p.SendMessage(m) == nil, "queueing succeeds")
	}
	answered := 0
	env := func() bool {
		// the peer answers an outstanding request (what recvLoop does with the reply)
		if protocol.VerifState(p) == busy && !protocol.VerifStopped(p) {
			answered++
			return protocol.VerifTransition(p, msg(2)) == nil
		}
		return false
	}
	blocked := sym.RunWithEnv(func() { protocol.VerifSendLoop(p) }, env)
	sym.Reach("ran")
	out := protocol.VerifSegmentsOut(p)
	var wire []byte
	nseg := 0
	for len(out) > 0 {
		seg, ok := <-out
		if !ok {
			break
		}
		nseg++
		sym.Assert(len(seg.Payload) >= 1 && len(seg.Payload) <= muxer.SegmentMaxPayloadLength && int(seg.PayloadLength) == len(seg.Payload), "every segment carries 1..65535 bytes and says so")
		sym.Assert(seg.GetProtocolId() == 0 && !seg.IsResponse(), "segments are addressed as initiator traffic of this protocol")
		wire = append(wire, seg.Payload...)
	}
	if firstBad {
		sym.Reach("rejected")
		sym.Assert(len(wire) == 0, "a first message that is not permitted is not sent")
		sym.Assert(protocol.VerifErrorCount(p) == 1 && protocol.VerifStopped(p) && !blocked, "a first message that is not permitted is reported")
		return
	}
	sym.Assert(protocol.VerifErrorCount(p) == 0 && blocked, "a conforming conversation raises no error and the loop keeps waiting")
	// wire bytes = queued bytes in order, once
	total := 0
	for _, m := range msgs {
		total += len(m.Cbor())
	}
	sym.Assert(len(wire) == total, "exactly the queued bytes are written")
	off := 0
	for _, m := range msgs {
		c := m.Cbor()
		n := len(c)
		sym.Assert(wire[off] == c[0] && wire[off+n-1] == c[n-1] && wire[off+n/2] == c[n/2], "message bytes appear unchanged, in queue order")
		off += n
	}
	// local transitions: the sent messages in queue order, each followed by the peer's reply
	var want []uint8
	requests := 0
	for _, m := range msgs {
		want = append(want, m.Type())
		if m.Type() == 1 {
			want = append(want, 2) // the environment answers every request
			requests++
		}
	}
	sym.Assert(answered == requests, "the peer was asked exactly once per request")
	sym.Assert(len(trans) == len(want), "every sent message advances the local state exactly once")
	for i := range want {
		sym.Assert(trans[i] == want[i], "local transitions follow queue order, interleaved with the peer's replies")
	}
	if k >= 2 {
		sym.Reach("pipelined")
	}
	if nseg >= 2 {
		sym.Reach("multi-segment")
	}
	sym.Assert(protocol.VerifPendingSend(p) == 0, "the pending-bytes account returns to zero once everything is sent")
	last := msgs[k-1].Type()
	if last == 3 {
		sym.Assert(protocol.VerifState(p) == fin, "the conversation ends in the terminal state")
	} else {
		sym.Assert(protocol.VerifState(p) == idle, "every request was answered: back in the idle state")
	}
}
