// Package stubs holds interface stubs shared by ledger-rule harnesses. A stub embeds the
// interface it stands for: a method the rule under test reads but the harness did not
// provide is a nil-interface call, which the executor reports (so nothing is silently
// defaulted).
package stubs

import (
	"errors"
	"math/big"

	"verifharness/sym"

	"github.com/blinklabs-io/gouroboros/ledger/common"
)

// Output is a transaction output of which only the amount and the assets exist.
type Output struct {
	common.TransactionOutput
	Coin  *big.Int
	Multi *common.MultiAsset[common.MultiAssetTypeOutput]
	Addr  common.Address
}

func (o Output) Amount() *big.Int                                        { return o.Coin }
func (o Output) Assets() *common.MultiAsset[common.MultiAssetTypeOutput] { return o.Multi }
func (o Output) Address() common.Address                                 { return o.Addr }

var ErrNoUtxo = errors.New("stub ledger: unknown utxo")

// Ledger answers UtxoById from a table indexed by the input's output index.
type Ledger struct {
	common.LedgerState
	Outs    []common.TransactionOutput
	Missing []bool
}

func (l Ledger) UtxoById(in common.TransactionInput) (common.Utxo, error) {
	i := int(in.Index())
	if i >= len(l.Outs) || (i < len(l.Missing) && l.Missing[i]) {
		return common.Utxo{}, ErrNoUtxo
	}
	return common.Utxo{Id: in, Output: l.Outs[i]}, nil
}

// InList reports whether rule r is a member of an era's validation rule list.
func InList(list []common.UtxoValidationRuleFunc, r common.UtxoValidationRuleFunc) bool {
	for _, x := range list {
		if sym.SameFunc(x, r) {
			return true
		}
	}
	return false
}
