// Package sym is the harness vocabulary. Under the symbolic executor (gosx) every function
// here is intercepted: U64/Bytes/... introduce solver variables, Assume/Assert/Check become
// path constraints and obligations. Compiled natively the same functions read the solver's
// model from the JSON file named by VERIF_REPLAY, so the harness itself is the replay test.
package sym

import (
	"encoding/json"
	"fmt"
	"math/big"
	"math/rand"
	"os"
	"reflect"
	"runtime"
	"sort"
	"strconv"
	"sync"
	"time"
)

type replay struct {
	Model  map[string]string `json:"model"`
	Params map[string]int    `json:"params"`
}

var rp *replay

// search mode (native only): symbols that the model does not fix are drawn at random and
// recorded, so that a failing run can be reported with its inputs. Used to look for a concrete
// witness of a counterexample the solver found under an abstraction (floating point).
var (
	searching bool
	rng       *rand.Rand
)

func draw() *big.Int {
	switch rng.Intn(10) {
	case 0, 1, 2:
		return big.NewInt(int64(rng.Intn(17)))
	case 3, 4, 5:
		return big.NewInt(int64(rng.Intn(1000000)))
	case 6, 7:
		k := uint(1 + rng.Intn(64))
		v := new(big.Int).Lsh(big.NewInt(1), k)
		v.Add(v, big.NewInt(int64(rng.Intn(9)-4)))
		return v.And(v, new(big.Int).SetUint64(^uint64(0)))
	}
	return new(big.Int).SetUint64(rng.Uint64())
}

// Trace collects what happened in a native run.
var (
	Failed   []string // messages of Assert/Check that did not hold
	Obs      = map[string]string{}
	Reached  = map[string]bool{}
	Regions  = map[string]bool{}
	assumeKO bool
)

func load() {
	if rp != nil {
		return
	}
	rp = &replay{Model: map[string]string{}, Params: map[string]int{}}
	if p := os.Getenv("VERIF_REPLAY"); p != "" {
		b, err := os.ReadFile(p)
		if err != nil {
			panic(err)
		}
		if err := json.Unmarshal(b, rp); err != nil {
			panic(err)
		}
		if rp.Model == nil {
			rp.Model = map[string]string{}
		}
	}
}

// SetReplay installs a model directly (used by tests).
func SetReplay(model map[string]string, params map[string]int) {
	rp = &replay{Model: model, Params: params}
	if rp.Model == nil {
		rp.Model = map[string]string{}
	}
	Failed, Obs, Reached, Regions, assumeKO = nil, map[string]string{}, map[string]bool{}, map[string]bool{}, false
}

func bigOf(name string) *big.Int {
	load()
	s, ok := rp.Model[name]
	if !ok && searching {
		v := draw()
		rp.Model[name] = v.String()
		return v
	}
	if !ok {
		return new(big.Int)
	}
	b, ok := new(big.Int).SetString(s, 10)
	if !ok {
		panic("sym: bad model value for " + name + ": " + s)
	}
	return b
}

func U64(name string) uint64 { return bigOf(name).Uint64() }
func U32(name string) uint32 { return uint32(bigOf(name).Uint64()) }
func U16(name string) uint16 { return uint16(bigOf(name).Uint64()) }
func U8(name string) uint8   { return uint8(bigOf(name).Uint64()) }
func Int(name string) int {
	b := bigOf(name)
	if b.IsInt64() {
		return int(b.Int64())
	}
	return int(b.Uint64()) // bit-vector models are unsigned
}
func Bool(name string) bool {
	load()
	if _, ok := rp.Model[name]; !ok && searching {
		rp.Model[name] = strconv.FormatBool(rng.Intn(2) == 0)
	}
	return rp.Model[name] == "true"
}
func Big(name string) *big.Int       { return bigOf(name) }
func BigNonNeg(name string) *big.Int { return bigOf(name) }
func Bytes(name string, n int) []byte {
	b := make([]byte, n)
	for i := range b {
		b[i] = byte(bigOf(name + "_" + strconv.Itoa(i)).Uint64())
	}
	return b
}

// Param is a concrete per-case parameter chosen by the driver (case split).
func Param(name string) int {
	load()
	v, ok := rp.Params[name]
	if !ok {
		panic("sym: missing parameter " + name)
	}
	return v
}

// Symbolic reports whether the harness runs under the symbolic executor.
func Symbolic() bool { return false }

func Assume(c bool) {
	if !c {
		assumeKO = true
		panic(AssumeFailed{})
	}
}

type AssumeFailed struct{}

func Assert(c bool, m string) {
	if !c {
		Failed = append(Failed, m)
		panic(AssertFailed{m})
	}
}

type AssertFailed struct{ Msg string }

// Check is an obligation that does not end the path when it fails.
func Check(c bool, m string) {
	if !c {
		Failed = append(Failed, m)
	}
}
func Reach(label string)           { Reached[label] = true }
func Region(name string, c bool)   { Regions[name] = c }
func ObsU64(name string, v uint64) { Obs[name] = strconv.FormatUint(v, 10) }
func ObsInt(name string, v int)    { Obs[name] = strconv.FormatUint(uint64(v), 10) }
func ObsBool(name string, v bool)  { Obs[name] = strconv.FormatBool(v) }
func BoundExceeded(why string)     { panic("bound exceeded natively: " + why) }

// RunNative runs a harness natively and prints a machine-readable report.
func RunNative(name string, f func()) (failed bool) {
	var pan any
	func() {
		defer func() {
			if r := recover(); r != nil {
				switch r.(type) {
				case AssertFailed, AssumeFailed:
				default:
					pan = r
				}
			}
		}()
		f()
	}()
	out := map[string]any{"harness": name, "failed": Failed, "obs": Obs, "assume_failed": assumeKO}
	if pan != nil {
		out["panic"] = fmt.Sprint(pan)
	}
	var rl []string
	for k := range Reached {
		rl = append(rl, k)
	}
	sort.Strings(rl)
	out["reached"] = rl
	out["regions"] = Regions
	b, _ := json.Marshal(out)
	fmt.Println("NATIVE-REPORT " + string(b))
	return len(Failed) > 0 || pan != nil
}

// RunBatch runs the items of the batch file named by VERIF_BATCH (written by the driver).
func RunBatch(registry map[string]func()) (anyFailed bool) {
	b, err := os.ReadFile(os.Getenv("VERIF_BATCH"))
	if err != nil {
		panic(err)
	}
	var items []struct {
		Harness string            `json:"harness"`
		Model   map[string]string `json:"model"`
		Params  map[string]int    `json:"params"`
		Search  int               `json:"search"`
	}
	if err := json.Unmarshal(b, &items); err != nil {
		panic(err)
	}
	for _, it := range items {
		SetReplay(it.Model, it.Params)
		f := registry[it.Harness]
		if f == nil {
			fmt.Println(`NATIVE-REPORT {"error":"unknown harness ` + it.Harness + `"}`)
			continue
		}
		if it.Search > 0 {
			if searchNative(it.Harness, f, it.Params, it.Search) {
				anyFailed = true
			}
			continue
		}
		if RunNative(it.Harness, f) {
			anyFailed = true
		}
	}
	return
}

// searchNative runs a harness on up to n random inputs and reports the first failing run
// together with its inputs (one NATIVE-REPORT line either way).
func searchNative(name string, f func(), params map[string]int, n int) bool {
	rng = rand.New(rand.NewSource(int64(n)*7919 + int64(len(name))))
	searching = true
	defer func() { searching = false }()
	for i := 0; i < n; i++ {
		SetReplay(map[string]string{}, params)
		var pan any
		func() {
			defer func() {
				if r := recover(); r != nil {
					switch r.(type) {
					case AssertFailed, AssumeFailed:
					default:
						pan = r
					}
				}
			}()
			f()
		}()
		if assumeKO || (len(Failed) == 0 && pan == nil) {
			continue
		}
		out := map[string]any{"harness": name, "failed": Failed, "obs": Obs, "assume_failed": false, "searched": i + 1, "model": rp.Model, "regions": Regions}
		if pan != nil {
			out["panic"] = fmt.Sprint(pan)
		}
		b, _ := json.Marshal(out)
		fmt.Println("NATIVE-REPORT " + string(b))
		return true
	}
	b, _ := json.Marshal(map[string]any{"harness": name, "failed": nil, "obs": map[string]string{}, "assume_failed": false, "searched": n, "regions": map[string]bool{}})
	fmt.Println("NATIVE-REPORT " + string(b))
	return false
}

// SameFunc reports whether two function values are the same function (the executor compares
// the SSA functions; natively the code pointers).
func SameFunc(a, b any) bool {
	return reflect.ValueOf(a).Pointer() == reflect.ValueOf(b).Pointer()
}

// RunUntilBlocked runs a goroutine body f. Under the executor it reports whether f ended
// blocked on a channel operation with nothing ready (the harness continues either way).
// Natively f runs in a goroutine; it counts as blocked if it has not returned after 1 s.
func RunUntilBlocked(f func()) bool {
	done := make(chan struct{})
	var pan any
	go func() {
		defer func() {
			pan = recover()
			close(done)
		}()
		f()
	}()
	select {
	case <-done:
		if pan != nil {
			panic(pan)
		}
		return false
	case <-time.After(nativeGrace):
		return true
	}
}

// nativeGrace: how long a natively running goroutine body may stay silent before it is taken
// to be blocked (generous, so that a loaded machine does not turn slowness into "blocked")
const nativeGrace = time.Second

// RunWithEnv runs a goroutine body f against a scripted environment: whenever f is about to
// block, env gets a turn (and reports whether it did something); f counts as blocked once env
// has nothing left to do (natively: see RunGoroutines).
func RunWithEnv(f func(), env func() bool) bool { return RunGoroutines(env, f) }

// RunGoroutines runs several goroutine bodies against a scripted environment. Under the
// executor the bodies are scheduled cooperatively (one runs until it blocks on a channel
// operation, then the next); when all of them are blocked env gets a turn and reports whether
// it did something; the call returns once env has nothing left to do, reporting whether some
// body is still blocked. Natively the bodies are real goroutines, the environment is polled
// every 20 ms, and "blocked for good" means it had nothing to do for a second.
func RunGoroutines(env func() bool, bodies ...func()) bool {
	var wg sync.WaitGroup
	var mu sync.Mutex
	var pan any
	for _, f := range bodies {
		wg.Add(1)
		go func(f func()) {
			defer func() {
				if r := recover(); r != nil {
					mu.Lock()
					pan = r
					mu.Unlock()
				}
				wg.Done()
			}()
			f()
		}(f)
	}
	done := make(chan struct{})
	go func() { wg.Wait(); close(done) }()
	check := func() {
		mu.Lock()
		defer mu.Unlock()
		if pan != nil {
			panic(pan)
		}
	}
	// the environment is polled every 20 ms; the bodies count as blocked for good once it has
	// had nothing to do for nativeGrace
	lastAction := time.Now()
	for {
		select {
		case <-done:
			check()
			return false
		case <-time.After(20 * time.Millisecond):
			check()
			if env != nil && env() {
				lastAction = time.Now()
			} else if time.Since(lastAction) > nativeGrace {
				return true
			}
		}
	}
}

// AllocatedBy reports the bytes allocated while f runs (natively, via runtime.MemStats; under
// the executor f just runs, allocation sizes being checked by the executor's own obligation on
// every make(), and the result is 0).
func AllocatedBy(f func()) uint64 {
	var m0, m1 runtime.MemStats
	runtime.GC()
	runtime.ReadMemStats(&m0)
	f()
	runtime.ReadMemStats(&m1)
	return m1.TotalAlloc - m0.TotalAlloc
}
