package blockfetch

import (
	"github.com/blinklabs-io/gouroboros/connection"
	"github.com/blinklabs-io/gouroboros/ledger"
	"github.com/blinklabs-io/gouroboros/protocol"
)

// Overlay shim: initial state, and a client built without goroutines whose result channels
// have a small buffer so that a sequential harness can run the real reply handlers before
// the real request call picks the results up.

func VerifInitialState() protocol.State { return StateIdle }

func VerifNewClient(cfg *Config, id connection.ConnectionId) *Client {
	c := &Client{config: cfg, Protocol: protocol.VerifRecordingProtocol(StateMap, StateIdle),
		blockChan: make(chan ledger.Block, 2), startBatchResultChan: make(chan error, 2), batchDoneChan: make(chan struct{}, 2)}
	c.callbackContext = CallbackContext{Client: c, ConnectionId: id}
	return c
}

func VerifClientHandle(c *Client, msg protocol.Message) error { return c.messageHandler(msg) }
