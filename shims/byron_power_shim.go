package byron

// Overlay shim (only for harness package c35p): accessor for the split-point helper. Kept apart
// from byron_shim.go so that a refactor that removes the helper only disables the one harness
// that calls it directly.

func VerifLargestPowerOfTwoBelow(n int) int { return largestPowerOfTwoBelow(n) }
