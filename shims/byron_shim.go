package byron

// Overlay shim: accessors for unexported functions (nothing else).

func VerifLargestPowerOfTwoBelow(n int) int { return largestPowerOfTwoBelow(n) }
