package byron

// Overlay shim: accessors for unexported functions (nothing else).

// VerifMainBlock builds a decoded-looking main block: header with the given body proof, n
// transactions with the given preserved body/witness bytes, and the preserved delegation and
// update payload bytes.
func VerifMainBlock(proof any, txBodies, txWits [][]byte, dlg, upd []byte) *ByronMainBlock {
	b := &ByronMainBlock{BlockHeader: &ByronMainBlockHeader{BodyProof: proof}}
	for i := range txBodies {
		var tx ByronTransaction
		tx.Body.SetCbor(txBodies[i])
		tx.twitCbor = txWits[i]
		b.Body.TxPayload = append(b.Body.TxPayload, tx)
	}
	b.Body.dlgPayloadRaw = dlg
	b.Body.updPayloadRaw = upd
	return b
}

// contract used for ValidateSscProofShape where the ssc payload is not under test: well-shaped
func VerifStubSscShapeOK(b *ByronMainBlock) error { return nil }
