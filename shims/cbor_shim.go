package cbor

// Overlay shim for package cbor (mapped virtually to /repo/cbor/zz_verif_shim.go; never
// written into the repository). It holds the *CBOR library contract* ("cborspec"): a short
// reference model of what fxamacker/cbor guarantees at the call sites the properties depend
// on -- RFC 8949 heads, opaque well-formed item extents (the uninterpreted function ilen),
// a ghost read cursor per Decoder. The symbolic executor substitutes these functions for the
// library's (stub table in checks/*.json); a native build never calls them.

import (
	"bytes"
	"errors"
	"io"

	_cbor "github.com/fxamacker/cbor/v2"
)

var errVerifStub = errors.New("verif: cbor library contract: decode error")

// hooks intercepted by the executor (native bodies are irrelevant)
func verifBool(name string) bool                 { return false } // fresh nondeterministic bool
func verifItemLen(data []byte, off int) int      { return 1 }     // UF ilen(backing array, absolute offset) in 1..64
func verifReaderBytes(r *bytes.Reader) []byte    { return nil }   // unread part of a bytes.Reader, same backing array
func verifDeposit(kind string, dest any) bool    { return false } // harness-prepared decode result

// VerifHead is the reference parser for one CBOR head at data[off:] (RFC 8949 section 3):
// major type, argument, head length, indefinite marker. Written independently of the
// repository's own header parsers.
func VerifHead(data []byte, off int) (major byte, arg uint64, hlen int, indef bool, ok bool) {
	if off < 0 || off >= len(data) {
		return 0, 0, 0, false, false
	}
	b0 := data[off]
	major = b0 >> 5
	ai := b0 & 0x1f
	rem := len(data) - off
	switch {
	case ai < 24:
		return major, uint64(ai), 1, false, true
	case ai == 24:
		if rem < 2 {
			return 0, 0, 0, false, false
		}
		return major, uint64(data[off+1]), 2, false, true
	case ai == 25:
		if rem < 3 {
			return 0, 0, 0, false, false
		}
		return major, uint64(data[off+1])<<8 | uint64(data[off+2]), 3, false, true
	case ai == 26:
		if rem < 5 {
			return 0, 0, 0, false, false
		}
		return major, uint64(data[off+1])<<24 | uint64(data[off+2])<<16 | uint64(data[off+3])<<8 | uint64(data[off+4]), 5, false, true
	case ai == 27:
		if rem < 9 {
			return 0, 0, 0, false, false
		}
		return major, uint64(data[off+1])<<56 | uint64(data[off+2])<<48 | uint64(data[off+3])<<40 | uint64(data[off+4])<<32 |
			uint64(data[off+5])<<24 | uint64(data[off+6])<<16 | uint64(data[off+7])<<8 | uint64(data[off+8]), 9, false, true
	case ai == 31:
		if major == 0 || major == 1 || major == 6 {
			return 0, 0, 0, false, false
		}
		return major, 0, 1, true, true
	}
	return 0, 0, 0, false, false
}

// VerifItemLen exposes the ilen UF to harnesses (to tie it to the structure they built).
func VerifItemLen(data []byte, off int) int { return verifItemLen(data, off) }

// ---- ghost decoder ----

type verifDecState struct {
	data []byte
	pos  int
}

var verifDecs = map[*_cbor.Decoder]*verifDecState{}

type verifDecMode struct{}

func (verifDecMode) Unmarshal(data []byte, v any) error { return errVerifStub }
func (verifDecMode) UnmarshalFirst(data []byte, v any) ([]byte, error) {
	return nil, errVerifStub
}
func (verifDecMode) Valid(data []byte) error      { return errVerifStub }
func (verifDecMode) Wellformed(data []byte) error { return errVerifStub }
func (verifDecMode) NewDecoder(r io.Reader) *_cbor.Decoder {
	d := new(_cbor.Decoder)
	verifDecs[d] = &verifDecState{data: verifReaderBytes(r.(*bytes.Reader))}
	return d
}
func (verifDecMode) DecOptions() _cbor.DecOptions { return _cbor.DecOptions{} }

// contract for DecOptions.DecModeWithTags: some decode mode
func VerifStubDecModeWithTags(o _cbor.DecOptions, t _cbor.TagSet) (_cbor.DecMode, error) {
	return verifDecMode{}, nil
}

// contract for (*Decoder).NumBytesRead: the ghost cursor
func VerifStubNumBytesRead(d *_cbor.Decoder) int { return verifDecs[d].pos }

// contract for (*Decoder).Skip: fail (any reason) or advance by the extent of the next item
func VerifStubSkip(d *_cbor.Decoder) error {
	st := verifDecs[d]
	if st.pos >= len(st.data) {
		return io.EOF
	}
	if verifBool("skip_fails") {
		return errVerifStub
	}
	l := verifItemLen(st.data, st.pos)
	if st.pos+l > len(st.data) {
		return io.ErrUnexpectedEOF
	}
	st.pos += l
	return nil
}

type verifNotUint struct{}

// VerifDepositValue is what a generic decode (destination *any) yields in the symbolic run:
// the harness prepares the Go value the decoder would produce for its input.
var VerifDepositValue any

const verifMaxItems = 6

// verifSplitArray is the contract for decoding one array item into its raw elements:
// reference head, then successive item extents (ilen), the 0xff break for indefinite arrays.
func verifSplitArray(data []byte, start int) (items []RawMessage, end int, ok bool) {
	major, cnt, hlen, indef, hok := VerifHead(data, start)
	if !hok || major != 4 {
		return nil, 0, false
	}
	off := start + hlen
	items = []RawMessage{}
	for i := 0; i <= verifMaxItems; i++ {
		if indef {
			if off >= len(data) {
				return nil, 0, false
			}
			if data[off] == 0xff {
				return items, off + 1, true
			}
		} else if uint64(i) >= cnt {
			return items, off, true
		}
		if i == verifMaxItems {
			break
		}
		l := verifItemLen(data, off)
		if off+l > len(data) {
			return nil, 0, false
		}
		items = append(items, RawMessage(data[off:off+l]))
		off += l
	}
	verifBoundExceeded("array with more than verifMaxItems items")
	return nil, 0, false
}

func verifAssign(dstPtr any, srcPtr any) bool    { return false } // intercepted: *dst = *src if both point to the same (underlying) type
func verifCopyShape(src any, dstPtr any) bool { return false } // intercepted: field-wise copy if shapes agree

func verifBoundExceeded(why string) {} // intercepted: ends the path as a bound failure

// contract for (*Decoder).Decode
func VerifStubDecoderDecode(d *_cbor.Decoder, dest any) error {
	st := verifDecs[d]
	if st.pos >= len(st.data) {
		return io.EOF
	}
	if verifBool("decode_fails") {
		return errVerifStub
	}
	switch v := dest.(type) {
	case *[]RawMessage:
		items, end, ok := verifSplitArray(st.data, st.pos)
		if !ok {
			return errVerifStub
		}
		*v = items
		st.pos = end
		return nil
	case *RawMessage:
		l := verifItemLen(st.data, st.pos)
		if st.pos+l > len(st.data) {
			return io.ErrUnexpectedEOF
		}
		*v = RawMessage(st.data[st.pos : st.pos+l])
		st.pos += l
		return nil
	case *Value:
		// generic decode of an array: unsigned integers become uint64 (the library's default),
		// every other element some value that is not a uint64
		items, end, ok := verifSplitArray(st.data, st.pos)
		if !ok {
			return errVerifStub
		}
		list := make([]any, len(items))
		for i, it := range items {
			major, arg, _, indef, hok := VerifHead(it, 0)
			if hok && major == 0 && !indef {
				list[i] = arg
			} else {
				list[i] = verifNotUint{}
			}
		}
		v.value = list
		st.pos = end
		return nil
	case *any:
		if VerifDepositValue == nil && VerifAnyIsOpaque {
			// generic decode of some well-formed item: an opaque value, the cursor moves past it
			l := verifItemLen(st.data, st.pos)
			if st.pos+l > len(st.data) {
				return io.ErrUnexpectedEOF
			}
			*v = verifNotUint{}
			st.pos += l
			return nil
		}
		if VerifDepositValue == nil {
			return errVerifStub
		}
		*v = VerifDepositValue // "the generic decoder produced this Go value"
		st.pos = len(st.data)
		return nil
	case *uint64:
		major, arg, hlen, indef, ok := VerifHead(st.data, st.pos)
		if !ok || major != 0 || indef {
			return errVerifStub
		}
		*v = arg
		st.pos += hlen
		return nil
	}
	if len(st.data) > 0 {
		if v, ok := VerifDeposits[&st.data[0]]; ok {
			if v == nil || !(verifAssign(dest, v) || verifCopyShape(v, dest)) {
				return errVerifStub
			}
			st.pos = len(st.data)
			return nil
		}
	}
	if VerifDepositValue != nil && verifAssign(dest, VerifDepositValue) {
		// "the decoder produced this value": the prepared object has the destination's type
		st.pos = len(st.data)
		return nil
	}
	if VerifDepositValue != nil {
		// typed decode of what the harness encoded: succeeds iff the destination has the same
		// flattened field list (the array shape of a toarray struct / a bare scalar)
		if !verifCopyShape(VerifDepositValue, dest) {
			return errVerifStub
		}
		st.pos = len(st.data)
		return nil
	}
	if verifDeposit("decode", dest) {
		l := verifItemLen(st.data, st.pos)
		if st.pos+l > len(st.data) {
			return io.ErrUnexpectedEOF
		}
		st.pos += l
		return nil
	}
	return errVerifStub
}

func verifOpaqueBytes(kind string, v any) []byte { return nil } // intercepted: opaque encoding enc(v)

// contract for cbor.Encode: a value that implements Marshaler is encoded by its own
// MarshalCBOR (what the library does for such values); anything else yields an opaque
// byte string.
func VerifStubEncode(data any) ([]byte, error) {
	if m, ok := data.(_cbor.Marshaler); ok {
		return m.MarshalCBOR()
	}
	if VerifPreciseEncode {
		switch v := data.(type) {
		case *any: // the library follows pointers and interfaces to the value
			if v != nil {
				return VerifStubEncode(*v)
			}
		case int64:
			return verifEncInt(v), nil
		case uint64:
			return verifEncHead(0, v), nil
		case []int64:
			out := verifEncHead(4, uint64(len(v)))
			for _, x := range v {
				out = append(out, verifEncInt(x)...)
			}
			return out, nil
		case []byte:
			return append(verifEncHead(2, uint64(len(v))), v...), nil
		}
	}
	out := verifOpaqueBytes("enc", data)
	if VerifAutoDeposit && len(out) > 0 {
		// the library's round trip: decoding what it encoded yields a value of the same shape
		VerifDeposits[&out[0]] = data
	}
	return out, nil
}

// VerifAutoDeposit (set by a harness): every opaque encoding is remembered, so that decoding
// those bytes later yields the encoded value (encode/decode round trip of the library).
var VerifAutoDeposit bool

// VerifAnyIsOpaque (set by a harness): a generic decode (destination *any) with no prepared
// value yields an opaque value and consumes one item extent.
var VerifAnyIsOpaque bool

// VerifPreciseEncode (set by a harness): integers, integer lists and byte strings are encoded
// by the reference encoder below (RFC 8949 preferred serialisation, which is what the
// library produces) instead of as opaque bytes.
var VerifPreciseEncode bool

func verifEncHead(major byte, arg uint64) []byte {
	m := major << 5
	switch {
	case arg < 24:
		return []byte{m | byte(arg)}
	case arg <= 0xff:
		return []byte{m | 24, byte(arg)}
	case arg <= 0xffff:
		return []byte{m | 25, byte(arg >> 8), byte(arg)}
	case arg <= 0xffffffff:
		return []byte{m | 26, byte(arg >> 24), byte(arg >> 16), byte(arg >> 8), byte(arg)}
	}
	return []byte{m | 27, byte(arg >> 56), byte(arg >> 48), byte(arg >> 40), byte(arg >> 32), byte(arg >> 24), byte(arg >> 16), byte(arg >> 8), byte(arg)}
}

func verifEncInt(v int64) []byte {
	if v >= 0 {
		return verifEncHead(0, uint64(v))
	}
	return verifEncHead(1, uint64(-1-v))
}

// VerifDeposits: per-input decode results prepared by the harness, keyed by the address of
// the input's first byte ("decoding these bytes yields this value"; a nil entry = the bytes
// do not decode).
var VerifDeposits = map[*byte]any{}

func VerifDepositFor(data []byte, v any) { VerifDeposits[&data[0]] = v }

func VerifArrayHeaderSizeFromBytes(data []byte, off int) (int, error) {
	return cborArrayHeaderSizeFromBytes(data, off)
}

// ---- framed-message contract (protocol read loop) ----

// verifExtent is the reference extent of one item made of unsigned integers, definite byte
// strings and definite arrays of those (RFC 8949): its length, io.ErrUnexpectedEOF when the
// input ends inside it, errVerifStub when it is malformed. Anything else is outside the contract.
func verifExtent(data []byte, off int, depth int) (int, error) {
	if off >= len(data) {
		return 0, io.ErrUnexpectedEOF
	}
	b0 := data[off]
	ai := b0 & 0x1f
	need := 1
	switch {
	case ai == 24:
		need = 2
	case ai == 25:
		need = 3
	case ai == 26:
		need = 5
	case ai == 27:
		need = 9
	case ai > 27:
		verifBoundExceeded("framed contract: indefinite or reserved head")
	}
	if len(data)-off < need {
		return 0, io.ErrUnexpectedEOF
	}
	major, arg, hlen, _, _ := VerifHead(data, off)
	switch major {
	case 0:
		return hlen, nil
	case 2:
		if arg > uint64(len(data)-off-hlen) {
			return 0, io.ErrUnexpectedEOF
		}
		return hlen + int(arg), nil
	case 4:
		if depth > 0 || arg > verifMaxItems {
			verifBoundExceeded("framed contract: nested or long array")
		}
		n := hlen
		for i := 0; i < int(arg); i++ {
			l, err := verifExtent(data, off+n, depth+1)
			if err != nil {
				return 0, err
			}
			n += l
		}
		return n, nil
	}
	verifBoundExceeded("framed contract: item kind")
	return 0, errVerifStub
}

// VerifStubDecodeFramed is the contract of cbor.Decode for the two destinations the protocol
// read loop uses, on streams made of arrays of unsigned integers and definite byte strings: the
// first complete item is decoded and its length returned; an item cut short by the end of the
// input gives io.ErrUnexpectedEOF.
func VerifStubDecodeFramed(data []byte, dest any) (int, error) {
	if len(data) == 0 {
		return 0, io.EOF
	}
	switch v := dest.(type) {
	case *[]RawMessage:
		total, err := verifExtent(data, 0, 0)
		if err != nil {
			return 0, err
		}
		major, cnt, hlen, _, _ := VerifHead(data, 0)
		if major != 4 {
			return total, errVerifStub
		}
		items := []RawMessage{}
		off := hlen
		for i := 0; i < int(cnt); i++ {
			l, _ := verifExtent(data, off, 1)
			items = append(items, RawMessage(data[off:off+l]))
			off += l
		}
		*v = items
		return total, nil
	case *uint:
		total, err := verifExtent(data, 0, 0)
		if err != nil {
			return 0, err
		}
		major, arg, _, _, _ := VerifHead(data, 0)
		if major != 0 {
			return total, errVerifStub
		}
		*v = uint(arg)
		return total, nil
	}
	verifBoundExceeded("framed contract: destination type")
	return 0, errVerifStub
}
