package chainsync

import (
	"github.com/blinklabs-io/gouroboros/connection"
	"github.com/blinklabs-io/gouroboros/protocol"
)

// Overlay shim: initial state, and a client built without goroutines whose sync loop body can
// be run against a scripted ready channel.

func VerifInitialState() protocol.State { return stateIdle }

func VerifNewClient(cfg *Config, id connection.ConnectionId) *Client {
	c := &Client{config: cfg, Protocol: protocol.VerifRecordingProtocol(StateMapNtN, stateIdle)}
	c.callbackContext = CallbackContext{Client: c, ConnectionId: id}
	return c
}

// VerifSyncStep runs the sync loop body on exactly the given ready tokens: the channel is
// closed after them, so the loop returns once they are consumed.
func VerifSyncStep(c *Client, tokens ...bool) {
	c.readyForNextBlockChan = make(chan bool, len(tokens)+1)
	for _, t := range tokens {
		c.readyForNextBlockChan <- t
	}
	close(c.readyForNextBlockChan)
	c.syncLoop()
}

func VerifPipelined(c *Client) int { return c.syncPipelinedRequestNext }

// VerifStartSync puts the client in the state Sync() leaves it in after the intersect was
// found: ready channel of capacity PipelineLimit (Start), one initial RequestNext queued, no
// pipelined requests counted.
func VerifStartSync(c *Client) error {
	c.readyForNextBlockChan = make(chan bool, c.config.PipelineLimit)
	c.syncPipelinedRequestNext = 0
	return c.SendMessage(NewMsgRequestNext())
}

func VerifSyncLoop(c *Client)                                { c.syncLoop() }
func VerifClientHandle(c *Client, msg protocol.Message) error { return c.messageHandler(msg) }
