package common

// Overlay shim for package ledger/common: constructors/accessors for unexported state.

// VerifNativeScript builds a NativeScript around an already decoded item.
func VerifNativeScript(item any, stored []byte) NativeScript {
	n := NativeScript{item: item}
	if stored != nil {
		n.SetCbor(stored)
	}
	return n
}

// VerifByronAddress builds a Byron (bootstrap) address whose root is the given hash, without
// going through the Byron CBOR/CRC envelope.
func VerifByronAddress(root Blake2b224) Address {
	return Address{addressType: AddressTypeByron, paymentPayload: AddressPayloadKeyHash{Hash: root}}
}

// VerifByronRoot exposes the address-root computation for bootstrap witnesses.
func VerifByronRoot(pub, chain, attrs []byte) (Blake2b224, error) {
	return computeByronAddressRoot(pub, chain, attrs)
}

// VerifTrailers exposes the whitelist of historical malformed mainnet address trailers (data).
func VerifTrailers() [][]byte { return knownMalformedAddressTrailers }

// VerifPointerEncode / VerifPointerDecode expose the pointer varint codec.
func VerifPointerEncode(slot, tx, cert uint64) []byte {
	p := AddressPayloadPointer{Slot: slot, TxIndex: tx, CertIndex: cert}
	return p.encode()
}

func VerifPointerDecode(data []byte) (AddressPayloadPointer, int, error) {
	var p AddressPayloadPointer
	n, err := p.decode(data)
	return p, n, err
}

func VerifCborArrayInfo(data []byte) (int, uint32, bool) { return cborArrayInfo(data) }
func VerifCborMapInfo(data []byte) (int, uint32, bool)   { return cborMapInfo(data) }
func VerifCborArrayHeaderSize(n int) uint32              { return cborArrayHeaderSize(n) }

// VerifDistributePoolRewards exposes distributePoolRewards.
func VerifDistributePoolRewards(total uint64, delegatorStake map[AddrKeyHash]uint64, pp *PoolRegistrationCertificate, snap RewardSnapshot) *PoolRewards {
	return distributePoolRewards(PoolKeyHash{}, total, delegatorStake, pp, snap)
}

// VerifStubDistribute is the contract of distributePoolRewards used when the pool totals are
// under test: some split of exactly the given total (harness PoolSplit checks the real
// function against this for an arbitrary total).
func VerifStubDistribute(_ PoolKeyHash, total uint64, _ map[AddrKeyHash]uint64, _ *PoolRegistrationCertificate, _ RewardSnapshot) *PoolRewards {
	return &PoolRewards{OperatorRewards: total, DelegatorRewards: map[AddrKeyHash]uint64{}, TotalRewards: total}
}

// ---- bech32 text form (address HRP gate) ----

// VerifBech32HRP / VerifBech32Data: what decoding the address text yields (prepared by the
// harness: a human-readable part and the 5-bit groups of the payload).
var (
	VerifBech32HRP  string
	VerifBech32Data []byte
)

// VerifStubBech32Decode is the contract of bech32.DecodeNoLimit for a well-formed bech32
// string: its human-readable part and its data part (checksum verification and the character
// set are the library's business).
func VerifStubBech32Decode(s string) (string, []byte, error) {
	return VerifBech32HRP, VerifBech32Data, nil
}
