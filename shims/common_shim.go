package common

// Overlay shim for package ledger/common: constructors/accessors for unexported state.

// VerifNativeScript builds a NativeScript around an already decoded item.
func VerifNativeScript(item any, stored []byte) NativeScript {
	n := NativeScript{item: item}
	if stored != nil {
		n.SetCbor(stored)
	}
	return n
}
