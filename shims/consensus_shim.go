package consensus

// Overlay shim: the header validator's KES-window step on a validator built from the two
// parameters it reads.

func VerifKESWindow(slotsPerKESPeriod, maxKESEvolutions, slot uint64, opCertKesPeriod uint32) error {
	v := &HeaderValidator{slotsPerKESPeriod: slotsPerKESPeriod, maxKESEvolutions: maxKESEvolutions}
	return v.validateKESPeriod(&ValidateHeaderInput{Slot: slot, OpCertKesPeriod: opCertKesPeriod})
}
