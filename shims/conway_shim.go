package conway

import "github.com/blinklabs-io/gouroboros/ledger/alonzo"

// Overlay shim: a redeemer set in the legacy array form, as the decoder leaves it (the
// fields that record the form are unexported).
func VerifLegacyRedeemers(n int) ConwayRedeemers {
	r := ConwayRedeemers{legacy: true}
	r.legacyRedeemers = alonzo.AlonzoRedeemers{}
	for i := 0; i < n; i++ {
		r.legacyRedeemers.Redeemers = append(r.legacyRedeemers.Redeemers, alonzo.AlonzoRedeemer{Index: uint32(i)})
	}
	return r
}
