package handshake

import (
	"github.com/blinklabs-io/gouroboros/connection"
	"github.com/blinklabs-io/gouroboros/protocol"
)

// Overlay shim: the protocol's initial state and handler entry points on objects built
// without starting any goroutine.

func VerifInitialState() protocol.State { return statePropose }

func VerifNewServer(cfg *Config, id connection.ConnectionId) *Server {
	s := &Server{config: cfg, Protocol: protocol.VerifRecordingProtocol(StateMapNtN, statePropose)}
	s.callbackContext = CallbackContext{Server: s, ConnectionId: id}
	return s
}

func VerifNewClient(cfg *Config, id connection.ConnectionId) *Client {
	c := &Client{config: cfg, Protocol: protocol.VerifRecordingProtocol(StateMapNtN, statePropose)}
	c.callbackContext = CallbackContext{Client: c, ConnectionId: id}
	return c
}

func VerifServerHandle(s *Server, msg protocol.Message) error { return s.handleMessage(msg) }
func VerifClientHandle(c *Client, msg protocol.Message) error { return c.messageHandler(msg) }

// ---- handshake outcome contract (used when connection set-up is under test) ----

// VerifOutcomeVersion / VerifOutcomeData: what the handshake negotiates (prepared by the harness).
var (
	VerifOutcomeVersion uint16
	VerifOutcomeData    protocol.VersionData
)

// VerifStubClientStart / VerifStubServerStart are the contract of Start() for connection
// set-up: the handshake runs to completion and reports the prepared outcome through the
// configured FinishedFunc (the exchange itself is C18/C19's subject).
func VerifStubClientStart(c *Client) {
	_ = c.config.FinishedFunc(c.callbackContext, VerifOutcomeVersion, VerifOutcomeData)
}
func VerifStubServerStart(s *Server) {
	_ = s.config.FinishedFunc(s.callbackContext, VerifOutcomeVersion, VerifOutcomeData)
}
