package handshake

import "github.com/blinklabs-io/gouroboros/protocol"

// Overlay shim: the protocol's initial state (the value client.go/server.go pass as InitialState).
func VerifInitialState() protocol.State { return statePropose }
