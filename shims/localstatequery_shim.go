package localstatequery

import (
	"github.com/blinklabs-io/gouroboros/connection"
	"github.com/blinklabs-io/gouroboros/protocol"
)

// Overlay shim: the protocol's initial state (the value client.go/server.go pass as InitialState).
func VerifInitialState() protocol.State { return stateIdle }

// VerifNewClient: the real client, not started, with the send queue Start() would create.
func VerifNewClient(id connection.ConnectionId) *Client {
	c := NewClient(protocol.ProtocolOptions{ConnectionId: id, ErrorChan: make(chan error, 10)}, nil)
	protocol.VerifMakeSendQueue(c.Protocol)
	return c
}

// VerifClientHandle passes a server message to the client's message handler.
func VerifClientHandle(c *Client, msg protocol.Message) error { return c.messageHandler(msg) }
