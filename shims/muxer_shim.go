package muxer

import (
	"encoding/binary"
	"io"
	"net"
)

// Overlay shim for package muxer: a Muxer built like New() but without starting the read
// loop goroutine, registration of receivers, the loop body as a callable, and the contract
// of encoding/binary on a SegmentHeader (reflection inside the library): 8 bytes, big-endian
// (timestamp, protocol id, payload length).

func VerifNewMuxer(conn net.Conn) *Muxer {
	m := &Muxer{
		conn:              conn,
		startChan:         make(chan bool, 1),
		doneChan:          make(chan bool),
		errorChan:         make(chan error, 10),
		protocolSenders:   make(map[uint16]map[ProtocolRole]chan *Segment),
		protocolReceivers: make(map[uint16]map[ProtocolRole]*segmentChannel),
	}
	m.waitGroup.Add(1)
	m.startChan <- true
	return m
}

func VerifRegister(m *Muxer, id uint16, role ProtocolRole) chan *Segment {
	ch := make(chan *Segment, 10)
	if _, ok := m.protocolReceivers[id]; !ok {
		m.protocolReceivers[id] = make(map[ProtocolRole]*segmentChannel)
	}
	m.protocolReceivers[id][role] = &segmentChannel{ch: ch}
	return ch
}

func VerifReadLoop(m *Muxer)           { m.readLoop() }
func VerifErrors(m *Muxer) chan error  { return m.errorChan }
func VerifStopped(m *Muxer) bool {
	select {
	case <-m.doneChan:
		return true
	default:
		return false
	}
}

func VerifStubBinaryRead(r io.Reader, order binary.ByteOrder, data any) error {
	h := data.(*SegmentHeader)
	var buf [8]byte
	if _, err := io.ReadFull(r, buf[:]); err != nil {
		return err
	}
	h.Timestamp = binary.BigEndian.Uint32(buf[0:4])
	h.ProtocolId = binary.BigEndian.Uint16(buf[4:6])
	h.PayloadLength = binary.BigEndian.Uint16(buf[6:8])
	return nil
}

func VerifStubBinaryWrite(w io.Writer, order binary.ByteOrder, data any) error {
	h := data.(SegmentHeader)
	var buf [8]byte
	binary.BigEndian.PutUint32(buf[0:4], h.Timestamp)
	binary.BigEndian.PutUint16(buf[4:6], h.ProtocolId)
	binary.BigEndian.PutUint16(buf[6:8], h.PayloadLength)
	_, err := w.Write(buf[:])
	return err
}

// VerifIsRegistered reports whether a receiver is registered for (protocol id, role).
func VerifIsRegistered(m *Muxer, id uint16, role ProtocolRole) bool {
	r, ok := m.protocolReceivers[id]
	if !ok {
		return false
	}
	_, ok = r[role]
	return ok
}

// VerifRegisteredIds lists the protocol numbers that have at least one receiver.
func VerifRegisteredIds(m *Muxer) []uint16 {
	var out []uint16
	for id, r := range m.protocolReceivers {
		if len(r) > 0 {
			out = append(out, id)
		}
	}
	return out
}
