package common

// Overlay shim for protocol/common: access to the authenticator's opcert cache (arbitrary
// pre-state for the one-step inductive check).

func VerifCacheSet(m *MessageAuthenticator, pool string, n uint64) { m.kesOpCertCache[pool] = n }
func VerifCacheGet(m *MessageAuthenticator, pool string) (uint64, bool) {
	v, ok := m.kesOpCertCache[pool]
	return v, ok
}
func VerifCacheLen(m *MessageAuthenticator) int { return len(m.kesOpCertCache) }
func VerifPoolID(m *MessageAuthenticator, cold []byte) string { return m.computePoolID(cold) }
