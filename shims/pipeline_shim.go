package pipeline

import "context"

// Overlay shim for package pipeline: a pipeline in the "started" state built without
// spawning goroutines (exactly the fields Submit / PendingCount / the worker read), and
// single-iteration entry points of the goroutine bodies.

func VerifNewStartedPipeline(buf int, ctx context.Context, apply ApplyFunc) *BlockPipeline {
	p := NewBlockPipeline()
	p.ctx = ctx
	p.submitChan = make(chan *BlockItem, buf)
	p.decodedChan = make(chan *BlockItem, buf)
	p.resultsChan = make(chan *BlockItem, buf)
	p.errorsChan = make(chan error, buf)
	p.applyStage = NewApplyStage(apply, 0)
	p.started.Store(true)
	return p
}

// VerifSetMaxPending rebuilds the apply stage with a reorder-buffer limit (WithMaxPendingBlocks).
func VerifSetMaxPending(p *BlockPipeline, apply ApplyFunc, n int) { p.applyStage = NewApplyStage(apply, n) }

func VerifSubmitChan(p *BlockPipeline) chan *BlockItem  { return p.submitChan }
func VerifDecodedChan(p *BlockPipeline) chan *BlockItem { return p.decodedChan }

// VerifInject puts an item on the decoded channel as if it had been submitted and decoded.
func VerifInject(p *BlockPipeline, it *BlockItem) {
	p.inFlight.Add(1)
	p.decodedChan <- it
}
func VerifApplyStage(p *BlockPipeline) *ApplyStage      { return p.applyStage }

// VerifDecodeWorker runs the decode pool's worker body (same wiring as Start) with the given stage.
func VerifDecodeWorker(p *BlockPipeline, stage Stage, ctx context.Context) {
	pool := NewStageWorkerPool(StageWorkerPoolConfig{Stage: stage, NumWorkers: 1, Input: p.submitChan, Output: p.decodedChan, Errors: p.errorsChan})
	pool.wg.Add(1)
	pool.worker(ctx)
}

// VerifApplyRunner runs the apply runner's body (same wiring as Start without validation).
func VerifApplyRunner(p *BlockPipeline, ctx context.Context) {
	r := NewApplyStageRunner(p.applyStage, p.decodedChan, p.resultsChan, p.errorsChan, 0)
	r.SetItemDoneFunc(p.itemDone)
	r.run(ctx)
}
