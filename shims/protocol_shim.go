package protocol

// Overlay shim for package protocol: drives the real (*Protocol).nextState on a given state map.

func VerifNextState(sm StateMap, ctx any, cur State, msg Message) (State, error) {
	p := &Protocol{config: ProtocolConfig{StateMap: sm, StateContext: ctx}}
	return p.nextState(cur, msg)
}

// VerifRecordingProtocol builds a Protocol whose send queue exists (what Start() creates) but
// whose loops are not running: messages passed to the real SendMessage stay in the queue.
func VerifRecordingProtocol(sm StateMap, initial State) *Protocol {
	p := New(ProtocolConfig{StateMap: sm, InitialState: initial, ErrorChan: make(chan error, 10)})
	p.sendQueueChan = make(chan outboundMessage, 80)
	return p
}

// VerifDrainSent removes and returns the queued outbound messages, in queue order.
func VerifDrainSent(p *Protocol) []Message {
	var out []Message
	for len(p.sendQueueChan) > 0 {
		m := <-p.sendQueueChan
		out = append(out, m.message)
	}
	return out
}
