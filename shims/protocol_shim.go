package protocol

// Overlay shim for package protocol: drives the real (*Protocol).nextState on a given state map.

func VerifNextState(sm StateMap, ctx any, cur State, msg Message) (State, error) {
	p := &Protocol{config: ProtocolConfig{StateMap: sm, StateContext: ctx}}
	return p.nextState(cur, msg)
}
