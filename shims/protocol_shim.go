package protocol

import (
	"fmt"

	"github.com/blinklabs-io/gouroboros/muxer"
)

// Overlay shim for package protocol: drives the real (*Protocol).nextState on a given state map.

func VerifNextState(sm StateMap, ctx any, cur State, msg Message) (State, error) {
	p := &Protocol{config: ProtocolConfig{StateMap: sm, StateContext: ctx}}
	return p.nextState(cur, msg)
}

// VerifRecordingProtocol builds a Protocol whose send queue exists (what Start() creates) but
// whose loops are not running: messages passed to the real SendMessage stay in the queue.
func VerifRecordingProtocol(sm StateMap, initial State) *Protocol {
	p := New(ProtocolConfig{StateMap: sm, InitialState: initial, ErrorChan: make(chan error, 10)})
	p.sendQueueChan = make(chan outboundMessage, 80)
	return p
}

// VerifDrainSent removes and returns the queued outbound messages, in queue order.
func VerifDrainSent(p *Protocol) []Message {
	var out []Message
	for len(p.sendQueueChan) > 0 {
		m := <-p.sendQueueChan
		out = append(out, m.message)
	}
	return out
}

// ---- goroutine bodies of Protocol, one at a time ----

// VerifLoopProtocol builds a Protocol with every channel Start() creates (and the channels
// muxer registration would supply), a zero muxer (enough for Stop), and no goroutines.
func VerifLoopProtocol(cfg ProtocolConfig) *Protocol {
	cfg.Muxer = &muxer.Muxer{}
	if cfg.ErrorChan == nil {
		cfg.ErrorChan = make(chan error, 10)
	}
	p := New(cfg)
	p.sendQueueChan = make(chan outboundMessage, 80)
	p.recvQueueChan = make(chan Message, 50)
	p.recvReadyChan = make(chan bool, 1)
	p.sendReadyChan = make(chan bool, 1)
	p.muxerSendChan = make(chan *muxer.Segment, 100)
	p.muxerRecvChan = make(chan *muxer.Segment, 100)
	p.muxerDoneChan = make(chan bool)
	return p
}

// VerifStateLoopBody returns the real state loop serving p's transition channel. A harness
// runs it until it blocks: that performs the real initial setState (state, ready token). Natively
// the goroutine then keeps serving transitionState; under the executor transitionState is
// replaced by its contract.
func VerifStateLoopBody(p *Protocol) func() {
	stc := make(chan protocolStateTransition)
	p.stateTransitionChan = stc
	return func() { p.stateLoop(stc) }
}

func VerifRecvLoop(p *Protocol)  { p.recvLoop() }
func VerifSendLoop(p *Protocol)  { p.sendLoop() }
func VerifReadLoop(p *Protocol)  { p.readLoop() }
func VerifQueueRecv(p *Protocol, m Message) { p.recvQueueChan <- m }
func VerifGrantRecv(p *Protocol) { p.recvReadyChan <- true }
func VerifGrantSend(p *Protocol) { p.sendReadyChan <- true }
func VerifRecvTokens(p *Protocol) int { return len(p.recvReadyChan) }
func VerifSendTokens(p *Protocol) int { return len(p.sendReadyChan) }
func VerifState(p *Protocol) State    { return p.currentState }
func VerifSetState(p *Protocol, s State) { p.currentState = s }
func VerifRecvQueued(p *Protocol) int { return len(p.recvQueueChan) }
func VerifTakeRecv(p *Protocol) Message { return <-p.recvQueueChan }
func VerifPendingRecv(p *Protocol) (int, int) { return p.pendingRecvBytes, len(p.pendingRecvSizes) }
func VerifPendingSend(p *Protocol) int { return p.pendingSendBytes }
func VerifSegmentsOut(p *Protocol) chan *muxer.Segment { return p.muxerSendChan }
func VerifSegmentsIn(p *Protocol) chan *muxer.Segment  { return p.muxerRecvChan }
func VerifStopped(p *Protocol) bool {
	select {
	case <-p.stopChan:
		return true
	default:
		return false
	}
}
func VerifDrainErrors(p *Protocol) []error {
	var out []error
	for len(p.config.ErrorChan) > 0 {
		out = append(out, <-p.config.ErrorChan)
	}
	return out
}
func VerifErrorCount(p *Protocol) int { return len(p.config.ErrorChan) }

// VerifRunStateLoop runs the real stateLoop on the given transition requests (queued in
// order) and returns, per request, the channel its result is delivered on.
func VerifRunStateLoop(p *Protocol, msgs []Message) (run func(), results []chan error) {
	ch := make(chan protocolStateTransition, len(msgs)+1)
	for _, m := range msgs {
		ec := make(chan error, 1)
		results = append(results, ec)
		ch <- protocolStateTransition{m, ec}
	}
	return func() { p.stateLoop(ch) }, results
}

// VerifTransitions records the messages handed to transitionState, with the number of
// segments already passed to the muxer at that moment.
var VerifTransitions []Message
var VerifTransitionSegs []int

// VerifStubTransitionState is the contract of transitionState in sequential mode: one step
// of the state loop executed inline (the real function hands the request to the state-loop
// goroutine and waits): next state from the real nextState; on success the state is set and
// the ready tokens are granted as setState grants them. The StateLoop harness checks the real
// stateLoop against exactly this behaviour.
func VerifStubTransitionState(p *Protocol, msg Message) error {
	VerifTransitions = append(VerifTransitions, msg)
	VerifTransitionSegs = append(VerifTransitionSegs, len(p.muxerSendChan))
	next, err := p.nextState(p.getCurrentState(), msg)
	if err != nil {
		return fmt.Errorf("%s: error handling protocol state transition: %w", p.config.Name, err)
	}
	p.currentState = next
	VerifGrantFor(p, next)
	return nil
}

// VerifGrantFor grants the ready token the agency of state s calls for (reference copy of
// the rule in setState: our agency -> send token, the peer's agency -> receive token).
func VerifGrantFor(p *Protocol, s State) {
	ag := p.config.StateMap[s].Agency
	mine := (ag == AgencyClient && p.config.Role == ProtocolRoleClient) || (ag == AgencyServer && p.config.Role == ProtocolRoleServer)
	theirs := (ag == AgencyClient && p.config.Role == ProtocolRoleServer) || (ag == AgencyServer && p.config.Role == ProtocolRoleClient)
	if mine {
		select {
		case p.sendReadyChan <- true:
		default:
		}
	}
	if theirs {
		select {
		case p.recvReadyChan <- true:
		default:
		}
	}
}

// VerifTransition performs one state transition the way the receive path does (real
// transitionState natively; its contract under the executor).
func VerifTransition(p *Protocol, m Message) error { return p.transitionState(m) }

const VerifMaxMessagesPerSegment = maxMessagesPerSegment
const VerifMaxReadBufferSize = maxReadBufferSize

// VerifMakeSendQueue gives a Protocol that was not started the send queue Start() creates,
// so that the real SendMessage queues messages (the loops are not running).
func VerifMakeSendQueue(p *Protocol) { p.sendQueueChan = make(chan outboundMessage, 80) }

// VerifTakeSent removes and returns the oldest queued outbound message (nil if none).
func VerifTakeSent(p *Protocol) Message {
	if len(p.sendQueueChan) == 0 {
		return nil
	}
	m := <-p.sendQueueChan
	return m.message
}

// VerifStateLoopIO: the real stateLoop as a goroutine body, a function that files a
// transition request with it, and the channel all results arrive on.
func VerifStateLoopIO(p *Protocol) (run func(), request func(Message), results chan error) {
	ch := make(chan protocolStateTransition, 16)
	results = make(chan error, 16)
	return func() { p.stateLoop(ch) }, func(m Message) { ch <- protocolStateTransition{m, results} }, results
}
