package txsubmission

import (
	"github.com/blinklabs-io/gouroboros/connection"
	"github.com/blinklabs-io/gouroboros/protocol"
)

// Overlay shim: initial state, and server/client objects built without goroutines. The result
// channel gets a one-slot buffer so that a sequential harness can run the real reply handler
// before the real request call picks the reply up.

func VerifInitialState() protocol.State { return stateInit }

func VerifNewServer(cfg *Config, id connection.ConnectionId) *Server {
	s := &Server{config: cfg, Protocol: protocol.VerifRecordingProtocol(StateMap, stateIdle),
		requestTxIdsResultChan: make(chan requestTxIdsResult, 1), requestTxsResultChan: make(chan []TxBody, 1)}
	s.callbackContext = CallbackContext{Server: s, ConnectionId: id}
	return s
}

func VerifServerHandle(s *Server, msg protocol.Message) error { return s.messageHandler(msg) }
func VerifServerAck(s *Server) int                             { return int(s.ackCount) }

func VerifNewClient(cfg *Config, id connection.ConnectionId) *Client {
	c := &Client{config: cfg, Protocol: protocol.VerifRecordingProtocol(StateMap, stateIdle)}
	c.callbackContext = CallbackContext{Client: c, ConnectionId: id}
	return c
}

func VerifClientHandle(c *Client, msg protocol.Message) error { return c.messageHandler(msg) }

// VerifInjectDone queues what handleDone hands to a waiting RequestTxIds call (handleDone
// itself restarts the protocol, which needs a muxer and goroutines).
func VerifInjectDone(s *Server) {
	s.requestTxIdsResultChan <- requestTxIdsResult{err: ErrStopServerProcess}
}
